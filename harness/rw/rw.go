// Package rw holds the C12 programs on async.NewReadWriter alone: a writer issuing a given sequence
// of Write sizes (empty writes included) followed by Close, against the storing side modelled as
// the io.Copy loop that content.Store runs — every interleaving.
package rw

import (
	"bytes"
	"errors"
	"fmt"
	"io"
	"strconv"
	"strings"

	"github.com/glebziz/fs_db/internal/utils/async"
	"github.com/glebziz/fs_db/verifh/conc"
	"github.com/glebziz/fs_db/verifrt/vrt"
)

type sink struct{ b []byte }

//go:norace
func (s *sink) Write(p []byte) (int, error) { s.b = append(s.b, p...); return len(p), nil }

type onlyReader struct{ r io.Reader }

func (o onlyReader) Read(p []byte) (int, error) { return o.r.Read(p) }

var errStore = errors.New("injected store failure")

// ParseParams: "w=1.0.2,b=3,f=1" — write sizes, reader buffer, fail after f reads (0: never).
func parse(p string) (parts []int, buf int, failAfter int) {
	buf = 32 * 1024
	for _, kv := range strings.Split(p, ",") {
		i := strings.IndexByte(kv, '=')
		if i < 0 {
			continue
		}
		k, v := kv[:i], kv[i+1:]
		switch k {
		case "w":
			if v != "" {
				for _, s := range strings.Split(v, ".") {
					n, _ := strconv.Atoi(s)
					parts = append(parts, n)
				}
			}
		case "b":
			buf, _ = strconv.Atoi(v)
		case "f":
			failAfter, _ = strconv.Atoi(v)
		}
	}
	return
}

func pattern(off, n int) []byte {
	b := make([]byte, n)
	for i := range b {
		b[i] = byte('a' + (off+i)%23)
	}
	return b
}

type failingReader struct {
	r     io.Reader
	left  int
	fired *bool
}

func (f *failingReader) Read(p []byte) (int, error) {
	if f.left == 0 {
		*f.fired = true
		return 0, errStore
	}
	f.left--
	return f.r.Read(p)
}

func init() {
	conc.Register("rw", func(p string) *conc.Scenario {
		parts, bufSize, failAfter := parse(p)
		return &conc.Scenario{
			Options: func(o *vrt.Options) {},
			Body: func() (string, string) {
				rw := async.NewReadWriter()
				rw.Add(1)
				var got sink
				failed := false
				vrt.GoNamed("storer", func() {
					defer rw.Done()
					var src io.Reader = onlyReader{rw}
					if failAfter > 0 {
						src = &failingReader{r: rw, left: failAfter - 1, fired: &failed}
					}
					_, err := io.CopyBuffer(&got, src, make([]byte, bufSize))
					if err != nil {
						rw.SetError(fmt.Errorf("store usecase set: %w", err))
					}
				})
				var want []byte
				var werr error
				off := 0
				// the writer owns one scratch buffer and re-uses it for every Write, as a caller copying through a
				// fixed buffer does: after Write has returned the bytes handed over must no longer matter
				// (io.Writer: "Write must not retain p"), so the buffer is overwritten at once
				var scratch []byte
				for _, n := range parts {
					chunk := pattern(off, n)
					if cap(scratch) < n {
						scratch = make([]byte, n)
					}
					buf := scratch[:n]
					copy(buf, chunk)
					k, err := rw.Write(buf)
					for i := range buf {
						buf[i] = 0xEE
					}
					if err != nil {
						werr = err
						break
					}
					if k != n {
						return fmt.Sprintf("short-write: Write(%d bytes) returned %d, nil", n, k), ""
					}
					want = append(want, chunk...)
					off += n
				}
				cerr := rw.Close()
				if failed {
					err := cerr
					if err == nil {
						err = werr
					}
					if err == nil {
						return "error-swallowed: the storing side failed but neither Write nor Close returned an error", "swallowed"
					}
					if !errors.Is(err, errStore) {
						return "error-class: returned error does not wrap the storing side's error: " + err.Error(), "class"
					}
					return "", "failed"
				}
				if werr != nil {
					return "spurious-write-error: " + werr.Error(), "werr"
				}
				if cerr != nil {
					return "spurious-close-error: " + cerr.Error(), "cerr"
				}
				if !bytes.Equal(got.b, want) {
					return fmt.Sprintf("content-mismatch: Close()==nil but stored %d bytes, written %d bytes (truncated=%v)",
						len(got.b), len(want), len(got.b) < len(want) && bytes.HasPrefix(want, got.b)), fmt.Sprintf("mismatch")
				}
				return "", "ok"
			},
		}
	})
}

// Compositions returns every sequence of at most maxParts non-negative sizes with sum at most total.
func Compositions(total, maxParts int) [][]int {
	var out [][]int
	var rec func(cur []int, left int)
	rec = func(cur []int, left int) {
		out = append(out, append([]int(nil), cur...))
		if len(cur) == maxParts {
			return
		}
		for n := 0; n <= left; n++ {
			rec(append(cur, n), left-n)
		}
	}
	rec(nil, total)
	return out
}

func Param(parts []int, buf, failAfter int) string {
	s := make([]string, len(parts))
	for i, n := range parts {
		s[i] = strconv.Itoa(n)
	}
	p := "w=" + strings.Join(s, ".") + ",b=" + strconv.Itoa(buf)
	if failAfter > 0 {
		p += ",f=" + strconv.Itoa(failAfter)
	}
	return p
}
