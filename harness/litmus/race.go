package litmus

import (
	"fmt"

	"github.com/glebziz/fs_db/verifrt/sync"
	"github.com/glebziz/fs_db/verifrt/vrt"
)

// Race litmus programs: the detector must report exactly the unsynchronised ones, in managed runs.

type box struct{ x, y int }

func racyPair() (string, string) {
	b := &box{}
	var wg sync.WaitGroup
	wg.Add(2)
	for i := 0; i < 2; i++ {
		vrt.Go(func() { b.x++; wg.Done() })
	}
	wg.Wait()
	return "", "ok"
}

func lockedPair() (string, string) {
	b := &box{}
	var m sync.Mutex
	var rw sync.RWMutex
	var wg sync.WaitGroup
	wg.Add(3)
	for i := 0; i < 2; i++ {
		vrt.Go(func() {
			m.Lock()
			b.x++
			m.Unlock()
			rw.RLock()
			_ = b.y
			rw.RUnlock()
			wg.Done()
		})
	}
	vrt.Go(func() {
		m.Lock()
		b.x++
		m.Unlock()
		rw.Lock()
		b.y++
		rw.Unlock()
		wg.Done()
	})
	wg.Wait()
	b.x++ // ordered after all Done calls by Wait
	b.y++
	return "", "ok"
}

func chanOrdered() (string, string) {
	b := &box{}
	ch := make(chan struct{}, 1)
	done := make(chan struct{})
	vrt.Go(func() {
		vrt.Recv(ch)
		b.x++
		vrt.Close(done)
	})
	b.x++
	vrt.Send(ch, struct{}{})
	vrt.Recv(done)
	b.x++
	return "", "ok"
}

// wgMisuse: the first Add (from zero) is not ordered before a Wait that finds the counter raised.
func wgMisuse() (string, string) {
	var wg, all sync.WaitGroup
	all.Add(1)
	vrt.Go(func() {
		wg.Add(1)
		vrt.Yield()
		wg.Done()
		all.Done()
	})
	vrt.Yield()
	wg.Wait()
	all.Wait()
	return "", "ok"
}

func raceChecks() []check {
	expect := func(name string, bound int, body func() (string, string), wantRace bool) check {
		return check{name, func() error {
			before := vrt.RaceErrors()
			e := explore(bound, body)
			got := vrt.RaceErrors() - before
			if len(e.Violations) > 0 {
				return fmt.Errorf("%s: unexpected verdict %s", name, e.Violations[0].Verdict)
			}
			if wantRace && got == 0 {
				return fmt.Errorf("%s: the race detector reported nothing in %d executions", name, e.Execs)
			}
			if !wantRace && got != 0 {
				return fmt.Errorf("%s: %d false race report(s) in %d executions", name, got, e.Execs)
			}
			return nil
		}}
	}
	return []check{
		expect("race: unsynchronised pair reported (bound 0)", 0, racyPair, true),
		expect("race: lock-protected accesses silent (unbounded)", 99, lockedPair, false),
		expect("race: channel-ordered accesses silent (unbounded)", 99, chanOrdered, false),
		expect("race: WaitGroup Add concurrent with blocking Wait reported", 2, wgMisuse, true),
	}
}

type poolLike struct {
	wg sync.WaitGroup
	ch chan int
}

// wgMisusePark: as in the worker pool — the adder parks in a select after its Add, the waiter arrives.
func wgMisusePark() (string, string) {
	p := &poolLike{ch: make(chan int)}
	quit := make(chan struct{})
	var all sync.WaitGroup
	all.Add(1)
	vrt.Go(func() {
		p.wg.Add(1)
		c1 := vrt.RecvCase(quit)
		c2 := vrt.SendCase(p.ch, 1)
		vrt.Select(false, c1, c2)
		p.wg.Done()
		all.Done()
	})
	vrt.Yield()
	vrt.Close(quit)
	p.wg.Wait()
	all.Wait()
	return "", "ok"
}
