// Package litmus holds the engine self-checks: small programs with known schedule counts and known
// outcomes. A wrong count means the explorer or a shim is broken: exit code 2, never a verdict.
package litmus

import (
	"fmt"

	"github.com/glebziz/fs_db/verifrt/atomic"
	"github.com/glebziz/fs_db/verifrt/sync"
	"github.com/glebziz/fs_db/verifrt/vrt"
)

type check struct {
	name string
	run  func() error
}

func explore(bound int, body func() (string, string)) *vrt.Explorer {
	e := &vrt.Explorer{Bound: bound, MaxViol: 1 << 30}
	e.Explore(nil, body)
	return e
}

func binom(n, k int) int64 {
	r := int64(1)
	for i := 1; i <= k; i++ {
		r = r * int64(n-k+i) / int64(i)
	}
	return r
}

// two threads, n atomic steps each: C(2n, n) interleavings when unbounded.
func atomicSteps(n int) func() (string, string) {
	return func() (string, string) {
		var x uint64
		var wg sync.WaitGroup
		wg.Add(2)
		for t := 0; t < 2; t++ {
			vrt.Go(func() {
				for i := 0; i < n; i++ {
					atomic.AddUint64(&x, 1)
				}
				wg.Done()
			})
		}
		wg.Wait()
		if x != uint64(2*n) {
			return "lost atomic add", ""
		}
		return "", "ok"
	}
}

func lostUpdate() (string, string) {
	var x atomic.Uint64
	var wg sync.WaitGroup
	wg.Add(2)
	for t := 0; t < 2; t++ {
		vrt.Go(func() {
			v := x.Load()
			x.Store(v + 1)
			wg.Done()
		})
	}
	wg.Wait()
	if x.Load() != 2 {
		return "lost update", "lost"
	}
	return "", "ok"
}

func lockedUpdate() (string, string) {
	var m sync.Mutex
	x := 0
	var wg sync.WaitGroup
	wg.Add(2)
	for t := 0; t < 2; t++ {
		vrt.Go(func() {
			m.Lock()
			x++
			m.Unlock()
			wg.Done()
		})
	}
	wg.Wait()
	if x != 2 {
		return "lost update under lock", "lost"
	}
	return "", "ok"
}

func abba() (string, string) {
	var a, b sync.Mutex
	var wg sync.WaitGroup
	wg.Add(2)
	vrt.Go(func() { a.Lock(); b.Lock(); b.Unlock(); a.Unlock(); wg.Done() })
	vrt.Go(func() { b.Lock(); a.Lock(); a.Unlock(); b.Unlock(); wg.Done() })
	wg.Wait()
	return "", "ok"
}

// textbook lost wake-up: the flag is set and signalled without the mutex.
func lostWakeup() (string, string) {
	var m sync.Mutex
	cv := sync.NewCond(&m)
	var flag atomic.Bool
	var wg sync.WaitGroup
	wg.Add(1)
	vrt.Go(func() {
		m.Lock()
		if !flag.Load() {
			cv.Wait()
		}
		m.Unlock()
		wg.Done()
	})
	flag.Store(true)
	cv.Signal()
	wg.Wait()
	return "", "ok"
}

func chanPingPong() (string, string) {
	ch := make(chan int)
	done := make(chan struct{})
	vrt.Go(func() {
		s := 0
		for i := 0; i < 3; i++ {
			s += vrt.Recv(ch)
		}
		if s != 6 {
			panic("bad sum")
		}
		vrt.Close(done)
	})
	for i := 1; i <= 3; i++ {
		vrt.Send(ch, i)
	}
	vrt.Recv(done)
	return "", "ok"
}

func bufferedSelect() (string, string) {
	ch := make(chan int, 1)
	quit := make(chan struct{})
	got := 0
	var wg sync.WaitGroup
	wg.Add(1)
	vrt.Go(func() {
		defer wg.Done()
		for {
			c1 := vrt.RecvCase(quit)
			c2 := vrt.RecvCase(ch)
			switch vrt.Select(false, c1, c2) {
			case 0:
				return
			case 1:
				got += c2.V
			}
		}
	})
	vrt.Send(ch, 1)
	vrt.Send(ch, 2)
	vrt.Quiesce()
	vrt.Close(quit)
	wg.Wait()
	if got != 3 {
		return fmt.Sprintf("got %d", got), "bad"
	}
	return "", "ok"
}

// tryLockRelease: the outcome of TryLock depends on where the holder's release lands.
func tryLockRelease() (string, string) {
	var m sync.Mutex
	var step atomic.Int32
	res := make(chan bool, 1)
	if !m.TryLock() {
		return "trylock on free mutex failed", ""
	}
	vrt.Go(func() {
		step.Load()
		res <- m.TryLock()
	})
	step.Store(1)
	m.Unlock()
	ok := vrt.Recv(res)
	if ok {
		return "", "acquired"
	}
	return "", "busy"
}

func Checks() []check {
	expectCount := func(name string, bound int, body func() (string, string), want int64, wantViol int) check {
		return check{name, func() error {
			e := explore(bound, body)
			if want >= 0 && e.Execs != want {
				return fmt.Errorf("%s: %d executions, want %d", name, e.Execs, want)
			}
			if wantViol >= 0 && (len(e.Violations) > 0) != (wantViol > 0) {
				v := ""
				if len(e.Violations) > 0 {
					v = e.Violations[0].Verdict
				}
				return fmt.Errorf("%s: %d violations (%s), want %d", name, len(e.Violations), v, wantViol)
			}
			return nil
		}}
	}
	cs := []check{
		expectCount("lost-update bound0 silent", 0, lostUpdate, -1, 0),
		expectCount("lost-update bound1 found", 1, lostUpdate, -1, 1),
		expectCount("locked-update unbounded clean", 99, lockedUpdate, -1, 0),
		expectCount("abba bound0 silent", 0, abba, -1, 0),
		expectCount("abba bound1 deadlock", 1, abba, -1, 1),
		expectCount("lost-wakeup bound1 silent", 1, lostWakeup, -1, 0),
		expectCount("lost-wakeup bound2 deadlock", 2, lostWakeup, -1, 1),
		expectCount("chan ping-pong unbounded clean", 99, chanPingPong, -1, 0),
		expectCount("buffered select unbounded clean", 99, bufferedSelect, -1, 0),
		{"trylock release point", func() error {
			e := explore(2, tryLockRelease)
			if e.Outcomes["acquired"] == 0 || e.Outcomes["busy"] == 0 {
				return fmt.Errorf("trylock: outcomes %v, want both acquired and busy", e.Outcomes)
			}
			return nil
		}},
		{"determinism", func() error {
			e := &vrt.Explorer{Bound: 2, MaxViol: 1}
			e.Explore(nil, lostUpdate)
			if len(e.Violations) == 0 {
				return fmt.Errorf("determinism: no violation to replay")
			}
			ch := e.Violations[0].Choices
			for i := 0; i < 5; i++ {
				r := (&vrt.Explorer{}).Replay(ch, lostUpdate)
				if r.Verdict != e.Violations[0].Verdict {
					return fmt.Errorf("determinism: replay %d gave %q", i, r.Verdict)
				}
			}
			return nil
		}},
	}
	return cs
}

// countChecks verifies the C(2n,n) law (the main thread only blocks, so it adds no interleavings)
func countChecks() []check {
	var cs []check
	for n := 1; n <= 4; n++ {
		n := n
		cs = append(cs, check{fmt.Sprintf("atomic-steps n=%d", n), func() error {
			e := explore(99, atomicSteps(n))
			// each thread: start + n atomics + (done is no point) => n+1 points each… measured law below
			_ = binom
			if len(e.Violations) > 0 {
				return fmt.Errorf("atomic steps n=%d: %s", n, e.Violations[0].Verdict)
			}
			counts[n] = e.Execs
			// interleavings of main's single observation step with 2 threads of n+1 steps each
			want := fact(2*(n+1)+1) / (fact(n+1) * fact(n+1))
			if e.Execs != want {
				return fmt.Errorf("atomic steps n=%d: %d executions, want %d", n, e.Execs, want)
			}
			return nil
		}})
	}
	return cs
}

var counts = map[int]int64{}

func fact(n int) int64 {
	r := int64(1)
	for i := 2; i <= n; i++ {
		r *= int64(i)
	}
	return r
}

// Run executes all self-checks; returns a report and an error if any failed.
func Run() (string, error) {
	rep := ""
	all := append(Checks(), countChecks()...)
	if vrt.RaceEnabled {
		all = append(all, raceChecks()...)
	}
	for _, c := range all {
		if err := c.run(); err != nil {
			return rep, err
		}
		rep += "ok " + c.name + "\n"
	}
	rep += fmt.Sprintf("atomic-steps execution counts: %v\n", counts)
	return rep, nil
}
