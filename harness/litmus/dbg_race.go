package litmus

import (
	"fmt"
	"os"

	"github.com/glebziz/fs_db/verifrt/sync"
	"github.com/glebziz/fs_db/verifrt/vrt"
)

func DebugRace() {
	for name, body := range map[string]func() (string, string){
		"yield-yield": wgMisuse,
		"park":        wgMisusePark,
		"park-noclose": func() (string, string) {
			p := &poolLike{ch: make(chan int, 1)}
			var all sync.WaitGroup
			all.Add(1)
			vrt.Go(func() {
				p.wg.Add(1)
				vrt.Recv(p.ch)
				p.wg.Done()
				all.Done()
			})
			vrt.Yield()
			vrt.Send(p.ch, 1)
			p.wg.Wait()
			all.Wait()
			return "", "ok"
		},
	} {
		before := vrt.RaceErrors()
		e := explore(2, body)
		fmt.Fprintf(os.Stdout, "%s: execs=%d races=%d outcomes=%v\n", name, e.Execs, vrt.RaceErrors()-before, e.Outcomes)
	}
}
