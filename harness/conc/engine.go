// Package conc drives the schedule explorer over named scenarios: bound iteration, sharding of the
// execution tree over worker processes, confirmation of violations by repeated replay, and the
// mapping of violations to known-finding signatures.
package conc

import (
	"bufio"
	"encoding/json"
	"fmt"
	"io"
	"os"
	"os/exec"
	"regexp"
	"runtime"
	"sort"
	"strings"
	"sync"
	"time"

	"github.com/glebziz/fs_db/verifh/hk"
	"github.com/glebziz/fs_db/verifrt/vrt"
)

// Scenario is a closed concurrent program plus its oracle.
type Scenario struct {
	Name string
	// Body runs as the managed main thread; it returns a verdict ("" = held) and an outcome key.
	Body func() (verdict, outcome string)
	// Options adjusts vrt.Opt for this scenario (called before every exploration, in every process).
	Options func(o *vrt.Options)
	// Kind classifies a verdict into a violation kind (stable word used in signatures).
	Kind func(verdict string) string
	// Witness inspects the executed steps of a violating execution (trace labels of the chosen thread at
	// every step: "T3:lock:inner<outer") and returns tags ("w:…") naming structural conditions that hold;
	// they join the deviation sites in the signature.
	Witness func(kind string, steps []Step) []string

	base, params string
}

var registry = map[string]func(params string) *Scenario{}

// Register makes a scenario family available by name in parent and worker processes.
func Register(name string, mk func(params string) *Scenario) { registry[name] = mk }

func lookup(name, params string) *Scenario {
	mk := registry[name]
	if mk == nil {
		panic("conc: unknown scenario " + name)
	}
	sc := mk(params)
	sc.base, sc.params = name, params
	if sc.Name == "" {
		sc.Name = name
		if params != "" {
			sc.Name += "(" + params + ")"
		}
	}
	return sc
}

func (sc *Scenario) apply() {
	vrt.Opt = vrt.Options{LongTimer: time.Second, StepHorizon: 200000, TimerDeviations: true, SelectChoice: true}
	if sc.Options != nil {
		sc.Options(&vrt.Opt)
	}
}

func (sc *Scenario) kind(v string) string {
	if sc.Kind != nil {
		if k := sc.Kind(v); k != "" {
			return k
		}
	}
	return DefaultKind(v)
}

var nonWord = regexp.MustCompile(`[^A-Za-z0-9_.-]+`)

var threadRef = regexp.MustCompile(`T\d+(\([^)]*\))?`)

// DefaultKind: the first word(s) before ':' of the verdict; panics are classified by their message,
// deadlocks by the word alone (thread numbers are not stable parts of a signature).
func DefaultKind(v string) string {
	switch {
	case strings.HasPrefix(v, "panic in "):
		m := v[len("panic in "):]
		if i := strings.Index(m, ": "); i >= 0 {
			m = m[i+2:]
		}
		if i := strings.IndexByte(m, '\n'); i >= 0 {
			m = m[:i]
		}
		m = nonWord.ReplaceAllString(strings.TrimSpace(m), "-")
		if len(m) > 50 {
			m = m[:50]
		}
		return "panic-" + m
	case strings.HasPrefix(v, "deadlock"):
		return "deadlock"
	case strings.HasPrefix(v, "step-horizon"):
		return "livelock"
	}
	if i := strings.IndexByte(v, ':'); i > 0 {
		v = v[:i]
	}
	if i := strings.IndexByte(v, '\n'); i > 0 {
		v = v[:i]
	}
	v = nonWord.ReplaceAllString(strings.TrimSpace(v), "-")
	if len(v) > 60 {
		v = v[:60]
	}
	return v
}

// ------------------------------------------------------------------ worker protocol

type task struct {
	Scenario string `json:"s"`
	Params   string `json:"p"`
	Bound    int    `json:"b"`
	Prefix   []int  `json:"x"`
	Deadline int64  `json:"d"` // unix nanoseconds
	MaxViol  int    `json:"v"`
	MaxExecs int64  `json:"m"`
	Iterate  bool   `json:"i"`  // explore bounds 0..Bound in turn, stop at the first bound with a violation
	NoClass  bool   `json:"nc"` // do not classify violations (no traced replays): race-only runs
}

type Violation struct {
	Choices []int    `json:"choices"`
	Verdict string   `json:"verdict"`
	Outcome string   `json:"outcome"`
	Kind    string   `json:"kind"`
	Sites   []string `json:"sites"`
	Count   int64    `json:"count"`
}

func (v *Violation) siteSig() string {
	s := append([]string(nil), v.Sites...)
	sort.Strings(s)
	return strings.Join(dedup(s), "&")
}

func dedup(s []string) []string {
	var out []string
	for i, x := range s {
		if i == 0 || x != s[i-1] {
			out = append(out, x)
		}
	}
	return out
}

type Stats struct {
	Execs      int64            `json:"execs"`
	Steps      int64            `json:"steps"`
	TreeNodes  int64            `json:"nodes"`
	MaxPoints  int              `json:"maxp"`
	Divergent  int64            `json:"div"`
	Capped     bool             `json:"capped"`
	Leaked     int64            `json:"leaked"`
	Outcomes   map[string]int64 `json:"outcomes"`
	Violations []*Violation     `json:"viol"`
	ViolExecs  int64            `json:"violexecs"`
	Races      []RaceReport     `json:"races,omitempty"`
	Err        string           `json:"err,omitempty"`
	BoundDone  int              `json:"bd"` // Iterate: highest bound explored completely (-1: none)
}

func (s *Stats) merge(o *Stats) {
	s.Execs += o.Execs
	s.Steps += o.Steps
	s.TreeNodes += o.TreeNodes
	if o.MaxPoints > s.MaxPoints {
		s.MaxPoints = o.MaxPoints
	}
	s.Divergent += o.Divergent
	s.Capped = s.Capped || o.Capped
	s.Leaked += o.Leaked
	if s.Outcomes == nil {
		s.Outcomes = map[string]int64{}
	}
	for k, v := range o.Outcomes {
		s.Outcomes[k] += v
	}
	s.ViolExecs += o.ViolExecs
	s.Violations = mergeViol(s.Violations, o.Violations)
	s.Races = mergeRaces(s.Races, o.Races)
}

// violations are deduplicated by (kind, site set); the first (fewest choices) schedule is kept.
func mergeViol(a, b []*Violation) []*Violation {
	idx := map[string]*Violation{}
	for _, v := range a {
		idx[v.Kind+"|"+v.siteSig()] = v
	}
	for _, v := range b {
		k := v.Kind + "|" + v.siteSig()
		if old, ok := idx[k]; ok {
			old.Count += v.Count
			if len(v.Choices) < len(old.Choices) {
				old.Choices, old.Verdict, old.Outcome = v.Choices, v.Verdict, v.Outcome
			}
			continue
		}
		idx[k] = v
		a = append(a, v)
	}
	return a
}

// Step is one executed operation of a traced execution.
type Step struct {
	Thread int
	Op     string
	Site   string // inner<outer
}

var stepRe = regexp.MustCompile(`\*T(\d+):([a-z-]+):(\S*)`)

// Steps extracts the executed operations from a trace.
func Steps(trace []string) []Step {
	var out []Step
	for _, l := range trace {
		if m := stepRe.FindStringSubmatch(l); m != nil {
			var t int
			fmt.Sscan(m[1], &t)
			out = append(out, Step{Thread: t, Op: m[2], Site: m[3]})
		}
	}
	return out
}

func (sc *Scenario) sites(v *Violation, tr *vrt.Result) {
	for _, s := range tr.Sites {
		v.Sites = append(v.Sites, deviationSite(s))
	}
	if sc.Witness != nil {
		v.Sites = append(v.Sites, sc.Witness(v.Kind, Steps(tr.Trace))...)
	}
}

// siteOf reduces a trace label of a deviation point to "kind@function" of what the preempted (or
// early-fired, or data-choosing) party was about to do.
var labelRe = regexp.MustCompile(`^\*?T\d+:([a-z-]+):(.*)$`)

func deviationSite(label string) string {
	// label: "T1:lock:pkg.Func  *T2:rlock:pkg.Func2  ..." — option 0 is the thread that was running
	// (or the lowest id); the deviation is that it did NOT continue: its pending op is the site.
	parts := strings.Split(label, "  ")
	if len(parts) == 0 {
		return label
	}
	if strings.HasPrefix(label, "data[") {
		if i := strings.IndexByte(label, ']'); i > 0 {
			return "choice:" + label[5:i]
		}
	}
	first := parts[0]
	for _, p := range parts {
		if strings.HasPrefix(p, "*early-timer") {
			return "early-timer"
		}
	}
	if m := labelRe.FindStringSubmatch(first); m != nil {
		site := m[2]
		if i := strings.IndexByte(site, '<'); i >= 0 {
			site = site[:i]
		}
		return m[1] + "@" + site
	}
	return first
}

// runShard explores one sub-tree in this process.
func runShard(t *task) *Stats {
	sc := lookup(t.Scenario, t.Params)
	sc.apply()
	e := &vrt.Explorer{Bound: t.Bound, MaxViol: 1 << 30, MaxExecs: t.MaxExecs}
	if t.Deadline > 0 {
		dl := time.Unix(0, t.Deadline)
		n := 0
		e.Deadline = func() bool {
			n++
			if n&63 != 0 {
				return false
			}
			return time.Now().After(dl)
		}
	}
	st := &Stats{Outcomes: map[string]int64{}}
	maxViol := t.MaxViol
	if maxViol <= 0 {
		maxViol = 64
	}
	rp := &vrt.Explorer{}
	raceBefore := vrt.RaceErrors()
	e.OnResult = func(r *vrt.Result) {
		if n := vrt.RaceErrors(); n != raceBefore {
			st.Races = mergeRaces(st.Races, collectRaces(sc, r))
			raceBefore = vrt.RaceErrors()
		}
		if r.Verdict == "" || strings.HasPrefix(r.Verdict, "vrt-divergence") {
			return
		}
		st.ViolExecs++
		if len(st.Violations) >= maxViol || t.NoClass {
			return
		}
		// classify: replay with tracing to learn the deviation sites
		tr := rp.Replay(r.Choices, sc.Body)
		if vrt.RaceErrors() != raceBefore {
			// reports printed during the classification replay belong to this schedule too
			st.Races = mergeRaces(st.Races, collectRaces(sc, r))
			raceBefore = vrt.RaceErrors()
		}
		v := &Violation{Choices: r.Choices, Verdict: r.Verdict, Outcome: r.Outcome, Kind: sc.kind(r.Verdict), Count: 1}
		if tr.Verdict != r.Verdict && sc.kind(tr.Verdict) != v.Kind {
			v.Kind = "nondeterministic-" + v.Kind
		}
		sc.sites(v, tr)
		st.Violations = mergeViol(st.Violations, []*Violation{v})
	}
	e.Explore(t.Prefix, sc.Body)
	st.Execs, st.Steps, st.TreeNodes, st.MaxPoints = e.Execs, e.PointsSum, e.TreeNodes, e.MaxPoints
	st.Divergent, st.Capped, st.Leaked = e.Divergent, e.Capped, e.LeakedSum
	for k, v := range e.Outcomes {
		st.Outcomes[k] += v
	}
	return st
}

// WorkerMain is the body of `verifh worker`: tasks on stdin, stats on stdout (JSON lines).
func WorkerMain() {
	setupRaceLog()
	in := bufio.NewReaderSize(os.Stdin, 1<<20)
	out := bufio.NewWriter(os.Stdout)
	for {
		line, err := in.ReadBytes('\n')
		if len(line) > 0 {
			var t task
			if jerr := json.Unmarshal(line, &t); jerr != nil {
				fmt.Fprintf(out, "{\"err\":%q}\n", jerr.Error())
			} else {
				st := safeShard(&t)
				b, _ := json.Marshal(st)
				out.Write(b)
				out.WriteByte('\n')
			}
			out.Flush()
		}
		if err != nil {
			return
		}
	}
}

func safeShard(t *task) (st *Stats) {
	defer func() {
		if r := recover(); r != nil {
			st = &Stats{Err: fmt.Sprint(r)}
		}
	}()
	if !t.Iterate {
		return runShard(t)
	}
	total := &Stats{Outcomes: map[string]int64{}, BoundDone: -1}
	for b := 0; b <= t.Bound; b++ {
		tb := *t
		tb.Bound = b
		one := runShard(&tb)
		total.merge(one)
		if one.Capped || one.Divergent > 0 {
			total.Capped = true
			break
		}
		total.BoundDone = b
		if len(one.Violations) > 0 {
			break
		}
		// nothing was cut off by the bound: higher bounds would repeat the same tree
		if one.TreeNodes > 0 && b > 0 && one.Execs == lastExecs {
			total.BoundDone = t.Bound
			break
		}
		lastExecs = one.Execs
	}
	return total
}

var lastExecs int64

// ------------------------------------------------------------------ parent side

type worker struct {
	cmd   *exec.Cmd
	in    *bufio.Writer
	out   *bufio.Reader
	stdin io.WriteCloser
}

type Pool struct {
	workers chan *worker
	all     []*worker
	n       int
}

// NewPool starts n worker processes of the current binary.
func NewPool(n int) (*Pool, error) {
	if n <= 0 {
		n = runtime.NumCPU()
	}
	p := &Pool{workers: make(chan *worker, n), n: n}
	exe, err := os.Executable()
	if err != nil {
		return nil, err
	}
	for i := 0; i < n; i++ {
		cmd := exec.Command(exe, "worker")
		cmd.Env = append(os.Environ(), "GOMAXPROCS=1", "VRT_WORKER=1")
		cmd.Stderr = os.Stderr
		stdin, err := cmd.StdinPipe()
		if err != nil {
			return nil, err
		}
		stdout, err := cmd.StdoutPipe()
		if err != nil {
			return nil, err
		}
		if err := cmd.Start(); err != nil {
			return nil, err
		}
		w := &worker{cmd: cmd, in: bufio.NewWriter(stdin), out: bufio.NewReaderSize(stdout, 1<<20), stdin: stdin}
		p.all = append(p.all, w)
		p.workers <- w
	}
	return p, nil
}

func (p *Pool) Close() {
	for _, w := range p.all {
		w.in.Flush()
		if os.Getenv("VERIF_CPUPROFILE") != "" {
			w.stdin.Close() // let the worker return from main and write its profile
			_ = w.cmd.Wait()
			continue
		}
		_ = w.cmd.Process.Kill()
		_ = w.cmd.Wait()
	}
}

func (p *Pool) run(t *task) *Stats {
	w := <-p.workers
	defer func() { p.workers <- w }()
	b, _ := json.Marshal(t)
	w.in.Write(b)
	w.in.WriteByte('\n')
	if err := w.in.Flush(); err != nil {
		return &Stats{Err: "worker write: " + err.Error()}
	}
	line, err := w.out.ReadBytes('\n')
	if err != nil {
		return &Stats{Err: "worker died: " + err.Error()}
	}
	var st Stats
	if err := json.Unmarshal(line, &st); err != nil {
		return &Stats{Err: "worker reply: " + err.Error()}
	}
	return &st
}

// BoundResult is the outcome of exploring one scenario at one bound.
type BoundResult struct {
	Bound    int
	Complete bool
	Stats    *Stats
	Seconds  float64
}

// ExploreScenario explores name(params) at bound with the tree sharded over the pool.
func ExploreScenario(p *Pool, name, params string, bound int, deadline time.Time, maxExecs int64) *BoundResult {
	start := time.Now()
	sc := lookup(name, params)
	sc.apply()
	total := &Stats{Outcomes: map[string]int64{}}
	// the parent runs the root execution (and, for higher bounds, the first levels) itself
	levels := 1
	if bound >= 3 {
		levels = 2
	}
	e := &vrt.Explorer{Bound: bound, MaxViol: 1 << 30}
	var rootViol []*vrt.Result
	raceBefore := vrt.RaceErrors()
	e.OnResult = func(r *vrt.Result) {
		if n := vrt.RaceErrors(); n != raceBefore {
			total.Races = mergeRaces(total.Races, collectRaces(sc, r))
			raceBefore = n
		}
		if r.Verdict != "" && !strings.HasPrefix(r.Verdict, "vrt-divergence") {
			rootViol = append(rootViol, r)
		}
	}
	var prefixes [][]int
	if bound == 0 {
		e.Explore(nil, sc.Body)
	} else {
		prefixes = e.Frontier(levels, sc.Body)
	}
	total.Execs, total.Steps, total.TreeNodes, total.MaxPoints = e.Execs, e.PointsSum, e.TreeNodes, e.MaxPoints
	total.Divergent, total.Leaked = e.Divergent, e.LeakedSum
	for k, v := range e.Outcomes {
		total.Outcomes[k] += v
	}
	rp := &vrt.Explorer{}
	for _, r := range rootViol {
		if RacesOnly {
			total.ViolExecs++
			continue
		}
		tr := rp.Replay(r.Choices, sc.Body)
		v := &Violation{Choices: r.Choices, Verdict: r.Verdict, Outcome: r.Outcome, Kind: sc.kind(r.Verdict), Count: 1}
		sc.sites(v, tr)
		total.ViolExecs++
		total.Violations = mergeViol(total.Violations, []*Violation{v})
	}
	complete := true
	var mu sync.Mutex
	var wg sync.WaitGroup
	sem := make(chan struct{}, p.n)
	for _, pf := range prefixes {
		if time.Now().After(deadline) {
			complete = false
			break
		}
		mu.Lock()
		capped := maxExecs > 0 && total.Execs >= maxExecs
		mu.Unlock()
		if capped {
			complete = false
			break
		}
		wg.Add(1)
		sem <- struct{}{}
		go func(pf []int) {
			defer wg.Done()
			defer func() { <-sem }()
			st := p.run(&task{Scenario: name, Params: params, Bound: bound, Prefix: pf, Deadline: deadline.UnixNano(), NoClass: RacesOnly})
			mu.Lock()
			defer mu.Unlock()
			if st.Err != "" {
				total.Err = st.Err
				complete = false
				return
			}
			if st.Capped {
				complete = false
			}
			total.merge(st)
		}(pf)
	}
	wg.Wait()
	if total.Divergent > 0 {
		complete = false
	}
	return &BoundResult{Bound: bound, Complete: complete, Stats: total, Seconds: time.Since(start).Seconds()}
}

// Confirm re-runs a violating schedule n times and returns the traced result if every run agrees on
// the violation kind; ok=false means the schedule is not deterministic (never reported as a verdict).
func Confirm(name, params string, v *Violation, n int) (*vrt.Result, bool) {
	sc := lookup(name, params)
	sc.apply()
	var last *vrt.Result
	for i := 0; i < n; i++ {
		r := (&vrt.Explorer{}).Replay(v.Choices, sc.Body)
		if r.Verdict == "" || sc.kind(r.Verdict) != strings.TrimPrefix(v.Kind, "nondeterministic-") {
			return r, false
		}
		last = r
	}
	return last, true
}

// ReplayFile re-executes a replay file written by this engine and prints the trace.
func ReplayFile(r *hk.Replay) int {
	sc := lookup(r.Scenario, r.Params)
	sc.apply()
	res := (&vrt.Explorer{}).Replay(r.Choices, sc.Body)
	for _, l := range res.Trace {
		fmt.Println(l)
	}
	fmt.Printf("verdict: %s\noutcome: %s\n", res.Verdict, res.Outcome)
	if res.Verdict != "" {
		fmt.Printf("VIOLATION property=%s replay=(replayed)\n", r.Property)
		return 1
	}
	return 0
}

// ReplayRace re-executes the schedule of a race replay file; under the race-detector build the
// report is printed again by the runtime.
func ReplayRace(r *hk.Replay) int {
	sc := lookup(r.Scenario, r.Params)
	sc.apply()
	before := vrt.RaceErrors()
	// no tracing here: the trace machinery shares label strings between threads through the
	// (instrumented) standard library, which the detector would report
	res := (&vrt.Explorer{}).RunOnce(r.Choices, false, sc.Body)
	fmt.Printf("verdict: %q outcome: %q\n", res.Verdict, res.Outcome)
	n := vrt.RaceErrors() - before
	fmt.Printf("race reports in this execution: %d (race detector build: %v)\n", n, vrt.RaceEnabled)
	if n > 0 {
		fmt.Printf("VIOLATION property=%s replay=(replayed)\n", r.Property)
		return 1
	}
	return 0
}

// Sig builds the known-finding signature of a violation.
func Sig(scenario string, v *Violation) string {
	return scenario + "|" + v.Kind + "|" + v.siteSig()
}
