package conc

import (
	"os"
	"regexp"
	"sort"
	"strings"
	"syscall"
)

// raceLogT captures the race detector's reports: stderr of the worker is redirected to a file, and
// after an execution in which runtime.RaceErrors() grew the new bytes are parsed.
type raceLogT struct {
	f   *os.File
	off int64
}

func openRaceLog() *raceLogT {
	f, err := os.CreateTemp("", "verif-racelog-*")
	if err != nil {
		return nil
	}
	os.Remove(f.Name())
	// keep the original stderr reachable for our own messages
	if fd, err := syscall.Dup(2); err == nil {
		os.Stderr = os.NewFile(uintptr(fd), "/dev/stderr")
	}
	if err := syscall.Dup2(int(f.Fd()), 2); err != nil {
		return nil
	}
	return &raceLogT{f: f}
}

var frameRe = regexp.MustCompile(`^  (\S+)\(.*\)$|^  (\S+)\(\)$`)

func (l *raceLogT) collect(choices []int) []RaceReport {
	st, err := l.f.Stat()
	if err != nil || st.Size() <= l.off {
		return nil
	}
	buf := make([]byte, st.Size()-l.off)
	n, _ := l.f.ReadAt(buf, l.off)
	l.off += int64(n)
	return parseRaces(string(buf[:n]), choices)
}

// parseRaces extracts the reports outside teardown windows.
func parseRaces(text string, choices []int) []RaceReport {
	var out []RaceReport
	inWindow := false
	lines := strings.Split(text, "\n")
	for i := 0; i < len(lines); i++ {
		ln := lines[i]
		switch {
		case strings.HasPrefix(ln, "@@VRT-TEARDOWN-BEGIN"):
			inWindow = true
		case strings.HasPrefix(ln, "@@VRT-TEARDOWN-END"):
			inWindow = false
		case strings.HasPrefix(ln, "WARNING: DATA RACE"):
			j := i + 1
			var stacks [][]string
			var cur []string
			section := ""
			for ; j < len(lines) && !strings.HasPrefix(lines[j], "=================="); j++ {
				l := lines[j]
				if strings.HasPrefix(l, "@@VRT-TEARDOWN") {
					break
				}
				if l != "" && !strings.HasPrefix(l, " ") {
					if cur != nil {
						stacks = append(stacks, cur)
					}
					cur = []string{}
					section = l
					if !(strings.HasPrefix(l, "Read") || strings.HasPrefix(l, "Write") || strings.HasPrefix(l, "Previous")) {
						cur = nil
					}
					continue
				}
				_ = section
				if cur != nil && strings.HasPrefix(l, "  ") && !strings.HasPrefix(l, "      ") {
					fn := strings.TrimSpace(l)
					if k := strings.LastIndexByte(fn, '('); k > 0 {
						fn = fn[:k]
					}
					cur = append(cur, fn)
				}
			}
			if cur != nil {
				stacks = append(stacks, cur)
			}
			i = j
			if inWindow || len(stacks) < 2 {
				continue
			}
			a, b := topFrame(stacks[0]), topFrame(stacks[1])
			if a == "" || b == "" {
				continue
			}
			pair := []string{a, b}
			sort.Strings(pair)
			rr := RaceReport{Sig: pair[0] + "~" + pair[1], Choices: choices, Count: 1}
			for _, s := range stacks[:2] {
				k := 0
				for _, fr := range s {
					if strings.Contains(fr, "/verifrt/") || strings.HasPrefix(fr, "runtime.") {
						continue
					}
					rr.Frames = append(rr.Frames, strings.TrimPrefix(fr, "github.com/glebziz/fs_db/"))
					k++
					if k >= 4 {
						break
					}
				}
				rr.Frames = append(rr.Frames, "--")
			}
			out = append(out, rr)
		}
	}
	return out
}

// topFrame: innermost frame in fs_db (or its instrumented dependency, or the harness); frames of the
// standard library reached from there (context, bytes, …) are attributed to their fs_db caller.
func topFrame(stack []string) string {
	pick := func(allowStd bool) string {
		for _, fr := range stack {
			if strings.Contains(fr, "/verifrt/") || strings.HasPrefix(fr, "runtime.") {
				continue
			}
			if !allowStd && !strings.Contains(fr, "glebziz/") {
				continue
			}
			fr = strings.TrimPrefix(fr, "github.com/glebziz/fs_db/")
			fr = closureRe.ReplaceAllString(fr, "")
			fr = shapeRe.ReplaceAllString(fr, "[…]")
			return fr
		}
		return ""
	}
	if f := pick(false); f != "" {
		return f
	}
	return pick(true)
}

var closureRe = regexp.MustCompile(`(\.func\d+)+(\.\d+)*$|-range\d+$`)
var shapeRe = regexp.MustCompile(`\[go\.shape\.[^\]]*\]`)
