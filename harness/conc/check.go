package conc

import (
	"fmt"
	"os"
	"time"

	"github.com/glebziz/fs_db/verifh/hk"
)

// Item is one scenario instance with the bounds to iterate.
type Item struct {
	Name     string
	Params   string
	MaxBound int   // bounds 0..MaxBound are explored in turn
	MaxExecs int64 // cap per bound (0: none); hitting it downgrades the result to non-exhaustive
	Label    string
}

// RacesOnly makes RunItems ignore scheduler-level and oracle verdicts (they belong to other
// properties' checks); only race reports are collected.
var RacesOnly bool

// Summary is what RunItems returns for the evidence file.
type Summary struct {
	Execs, Steps, Nodes int64
	Outcomes            map[string]int64
	Samples             []any
	AllComplete         bool
	Completed           map[string]int // scenario -> highest bound fully explored
	ViolExecs           int64
	Races               []RaceReport
	Scenarios           int
}

// RunItems explores every item up to its bound (or until the budget ends), reports violations through
// rp, and returns the coverage summary.
func RunItems(rp *hk.Reporter, pool *Pool, items []Item, budget *hk.Budget, verbose bool) *Summary {
	sum := &Summary{Outcomes: map[string]int64{}, AllComplete: true, Completed: map[string]int{}}
	// every scenario gets bound 0 and 1 before any gets its deeper bounds, so that a short budget
	// still covers all programs
	maxB := 0
	for _, it := range items {
		if it.MaxBound > maxB {
			maxB = it.MaxBound
		}
	}
	stopped := map[int]bool{}
	prevExecs := map[int]int64{}
	sum.Scenarios = len(items)
	for b := 0; b <= maxB; b++ {
		for i, it := range items {
			if b > it.MaxBound || stopped[i] {
				continue
			}
			label := it.Name
			if it.Params != "" {
				label += "(" + it.Params + ")"
			}
			if budget.Expired() {
				sum.AllComplete = false
				continue
			}
			br := ExploreScenario(pool, it.Name, it.Params, b, budget.Deadline(), it.MaxExecs)
			st := br.Stats
			if st.Err != "" {
				fmt.Fprintf(os.Stderr, "verifh: infrastructure error in %s bound %d: %s\n", label, b, st.Err)
				os.Exit(3)
			}
			sum.Execs += st.Execs
			sum.Steps += st.Steps
			sum.Nodes += st.TreeNodes
			sum.ViolExecs += st.ViolExecs
			sum.Races = mergeRaces(sum.Races, st.Races)
			for k, v := range st.Outcomes {
				sum.Outcomes[label+": "+k] += v
			}
			if br.Complete {
				sum.Completed[label] = b
				if b > 0 && st.Execs == prevExecs[i] && st.ViolExecs == 0 {
					// the bound cut nothing off: the whole tree has been explored
					sum.Completed[label] = it.MaxBound
					stopped[i] = true
				}
				prevExecs[i] = st.Execs
			} else {
				sum.AllComplete = false
			}
			if verbose {
				fmt.Printf("  %-46s bound %d: %8d executions %10d steps  %2d outcomes  %5d violating  %.1fs complete=%v\n",
					label, b, st.Execs, st.Steps, len(st.Outcomes), st.ViolExecs, br.Seconds, br.Complete)
			}
			if len(sum.Samples) < 40 {
				smp := map[string]any{"scenario": label, "bound": b, "executions": st.Execs, "max_points": st.MaxPoints,
					"complete": br.Complete, "outcomes": st.Outcomes}
				sum.Samples = append(sum.Samples, smp)
			}
			newViol := false
			for _, v := range st.Violations {
				if RacesOnly {
					continue
				}
				res, ok := Confirm(it.Name, it.Params, v, 5)
				if !ok {
					fmt.Fprintf(os.Stderr, "verifh: schedule in %s did not reproduce deterministically (kind %s); not reported\n", label, v.Kind)
					sum.AllComplete = false
					continue
				}
				r := &hk.Replay{Engine: "conc", Scenario: it.Name, Params: it.Params, Bound: b, Choices: v.Choices,
					Verdict: res.Verdict, Sig: Sig(sigScope(it), v), Trace: res.Trace}
				if rp.Report(r) {
					newViol = true
				}
			}
			if newViol {
				stopped[i] = true // the minimal counterexample is out; deeper bounds add nothing
			}
		}
	}
	return sum
}

// RunMany explores many small scenarios, one whole exploration (bounds 0..MaxBound in turn) per
// worker task, in parallel.
func RunMany(rp *hk.Reporter, pool *Pool, items []Item, budget *hk.Budget, verbose bool) *Summary {
	sum := &Summary{Outcomes: map[string]int64{}, AllComplete: true, Completed: map[string]int{}, Scenarios: len(items)}
	type res struct {
		it Item
		st *Stats
	}
	ch := make(chan res, len(items))
	go func() {
		sem := make(chan struct{}, pool.n)
		for _, it := range items {
			sem <- struct{}{}
			go func(it Item) {
				defer func() { <-sem }()
				if budget.Expired() {
					ch <- res{it, &Stats{Capped: true, BoundDone: -1}}
					return
				}
				st := pool.run(&task{Scenario: it.Name, Params: it.Params, Bound: it.MaxBound, Iterate: true,
					Deadline: budget.Deadline().UnixNano(), MaxExecs: it.MaxExecs})
				ch <- res{it, st}
			}(it)
		}
	}()
	for range items {
		r := <-ch
		it, st := r.it, r.st
		label := it.Name + "(" + it.Params + ")"
		if st.Err != "" {
			fmt.Fprintf(os.Stderr, "verifh: infrastructure error in %s: %s\n", label, st.Err)
			os.Exit(3)
		}
		sum.Execs += st.Execs
		sum.Steps += st.Steps
		sum.Nodes += st.TreeNodes
		sum.ViolExecs += st.ViolExecs
		sum.Races = mergeRaces(sum.Races, st.Races)
		for k, v := range st.Outcomes {
			sum.Outcomes[k] += v
		}
		if st.Capped || st.BoundDone < it.MaxBound && len(st.Violations) == 0 {
			sum.AllComplete = false
		}
		sum.Completed[label] = st.BoundDone
		if verbose {
			fmt.Printf("  %-46s bounds<=%d: %8d executions %2d outcomes %5d violating\n", label, st.BoundDone, st.Execs, len(st.Outcomes), st.ViolExecs)
		}
		if len(sum.Samples) < 25 {
			sum.Samples = append(sum.Samples, map[string]any{"scenario": label, "bound_completed": st.BoundDone,
				"executions": st.Execs, "outcomes": st.Outcomes})
		}
		for _, v := range st.Violations {
			res, ok := Confirm(it.Name, it.Params, v, 5)
			if !ok {
				fmt.Fprintf(os.Stderr, "verifh: schedule in %s did not reproduce deterministically (kind %s); not reported\n", label, v.Kind)
				sum.AllComplete = false
				continue
			}
			rp.Report(&hk.Replay{Engine: "conc", Scenario: it.Name, Params: it.Params, Bound: st.BoundDone, Choices: v.Choices,
				Verdict: res.Verdict, Sig: Sig(sigScope(it), v), Trace: res.Trace})
		}
	}
	if len(sum.Completed) > 60 {
		// keep the evidence file readable: aggregate
		agg := map[string]int{}
		for _, b := range sum.Completed {
			agg[fmt.Sprintf("scenarios_completed_at_bound_%d", b)]++
		}
		sum.Completed = agg
	}
	return sum
}

// sigScope: scenario families with many parameter instances share known-finding entries by family
// (Label) rather than by instance.
func sigScope(it Item) string {
	if it.Label != "" {
		return it.Label
	}
	if it.Params == "" {
		return it.Name
	}
	return it.Name + "(" + it.Params + ")"
}

// Coverage renders the summary into evidence coverage keys (model_checking level).
func (s *Summary) Coverage(rule string) map[string]any {
	outs := map[string]int64{}
	for k, v := range s.Outcomes {
		outs[k] = v
	}
	return map[string]any{
		"states":                        s.Nodes,
		"transitions":                   s.Steps,
		"traces_validated_against_impl": s.Execs,
		"evaluations":                   s.Execs,
		"distinct_nontrivial":           len(outs),
		"rule":                          rule,
		"samples":                       s.Samples,
		"exhaustive":                    s.AllComplete,
		"completed_bound":               s.Completed,
		"distinct_outcomes":             len(outs),
		"violating_executions":          s.ViolExecs,
		"scenarios":                     s.Scenarios,
	}
}

var _ = time.Now
