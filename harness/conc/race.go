package conc

import (
	"os"

	"github.com/glebziz/fs_db/verifrt/vrt"
)

// RaceReport is one data race reported by the Go race detector, reduced to its signature.
type RaceReport struct {
	Sig      string   `json:"sig"`     // unordered pair of the top fs_db frames of the two accesses
	Frames   []string `json:"frames"`  // a few frames of each stack
	Choices  []int    `json:"choices"` // schedule of the execution in which it was reported
	Scenario string   `json:"scenario"`
	Params   string   `json:"params"`
	Count    int64    `json:"count"`
}

func mergeRaces(a, b []RaceReport) []RaceReport {
	for _, r := range b {
		found := false
		for i := range a {
			if a[i].Sig == r.Sig {
				a[i].Count += r.Count
				found = true
				break
			}
		}
		if !found {
			a = append(a, r)
		}
	}
	return a
}

var raceLog *raceLogT

func setupRaceLog() {
	if vrt.RaceEnabled && raceLog == nil && os.Getenv("VRT_RAW_RACE") == "" {
		raceLog = openRaceLog()
	}
}

// ParentRaceSetup lets the parent process of a race-detector run capture the reports of the
// executions it performs itself (root and frontier executions).
func ParentRaceSetup() { setupRaceLog() }

func collectRaces(sc *Scenario, r *vrt.Result) []RaceReport {
	if raceLog == nil {
		return nil
	}
	rs := raceLog.collect(r.Choices)
	for i := range rs {
		rs[i].Scenario, rs[i].Params = sc.base, sc.params
	}
	return rs
}

// DiscardRaceLog drops what the detector has printed so far (the self-check's intentional races).
func DiscardRaceLog() {
	if raceLog != nil {
		raceLog.collect(nil)
	}
}
