package conc

import (
	"github.com/glebziz/fs_db/verifrt/vrt"
)

// RaceReport is one data race reported by the Go race detector, reduced to its signature.
type RaceReport struct {
	Sig     string   `json:"sig"`     // unordered pair of the top fs_db frames of the two accesses
	Frames  []string `json:"frames"`  // a few frames of each stack
	Choices []int    `json:"choices"` // schedule of the execution in which it was reported
	Count   int64    `json:"count"`
}

func mergeRaces(a, b []RaceReport) []RaceReport {
	for _, r := range b {
		found := false
		for i := range a {
			if a[i].Sig == r.Sig {
				a[i].Count += r.Count
				found = true
				break
			}
		}
		if !found {
			a = append(a, r)
		}
	}
	return a
}

var raceLog *raceLogT

func setupRaceLog() {
	if vrt.RaceEnabled {
		raceLog = openRaceLog()
	}
}

func collectRaces(sc *Scenario, r *vrt.Result) []RaceReport {
	if raceLog == nil {
		return nil
	}
	return raceLog.collect(r.Choices)
}
