// Package dirs holds the C17 histories: from seeded states with limit-2, limit-1 and limit entries in
// the active directory, every sequence of writes, overwrites, deletions, collections, reopenings and
// root-restricted probes up to a depth, with the directory structure checked after every step.
package dirs

import (
	"bytes"
	"context"
	"fmt"
	"os"
	"path/filepath"
	"sort"
	"strings"

	"github.com/google/uuid"

	"github.com/glebziz/fs_db/verifh/dbh"
	"github.com/glebziz/fs_db/verifh/enum"
	"github.com/glebziz/fs_db/verifh/seq"
	"github.com/glebziz/fs_db/verifrt/disk"
	"github.com/glebziz/fs_db/verifrt/rand"
	"github.com/glebziz/fs_db/verifrt/vrt"
)

type seedSpec struct {
	Roots    int    `json:"roots"`
	CfgLimit uint64 `json:"configured_limit"`
	Fill     int    `json:"entries_in_active_dir"`
	// Layout: "" one directory in root 0 with Fill entries; "two": root 0 additionally holds a full,
	// rotated-out directory; "both": with two roots, each root's directory holds Fill entries.
	Layout string `json:"layout,omitempty"`
	// Prelude: operations applied in the session itself (after the open on the seed, before the
	// enumerated history): what the running process remembers is part of the state
	Prelude string `json:"prelude_in_session,omitempty"`
	// Spelling of the roots in the configuration (dbh.Spec.RootSpelling): 1 trailing slash, 2 a "." element
	Spelling int `json:"root_spelling,omitempty"`
}

func (s seedSpec) limit() int {
	if s.CfgLimit < 100 {
		return 100
	}
	return int(s.CfgLimit)
}

// seedKeys is the number of keys the seed holds.
func (s seedSpec) seedKeys() int {
	switch s.Layout {
	case "two":
		return s.limit() + s.Fill
	case "both":
		return 2 * s.Fill
	}
	return s.Fill
}

func (s seedSpec) spec() dbh.Spec {
	return dbh.Spec{Roots: s.Roots, MaxDirCount: s.CfgLimit, Workers: 1, RootSpelling: s.Spelling}
}

var seedCache = map[seedSpec]*dbh.Snapshot{}

func buildSeed(s seedSpec) (*dbh.Snapshot, error) {
	s.Prelude = ""
	if sn, ok := seedCache[s]; ok {
		return sn, nil
	}
	dbh.FreshWorld()
	in, err := dbh.Open(s.spec())
	if err != nil {
		return nil, err
	}
	only := func(root int) {
		for r := range in.Roots {
			if r == root {
				disk.SetFree(in.Roots[r], disk.DefaultFree)
			} else {
				disk.SetFree(in.Roots[r], 0)
			}
		}
	}
	only(0)
	n := s.seedKeys()
	for i := 0; i < n; i++ {
		if s.Layout == "both" && i == s.Fill {
			only(1)
		}
		if err := in.DB.Set(context.Background(), fmt.Sprintf("s%03d", i), dbh.Content(1000+i, 8)); err != nil {
			// the seed is written through the public API by the tree under test: a root that refuses a
			// write while it is the only one with space is the property failing, not the harness
			return nil, &seedWriteError{fmt.Sprintf("Set number %d of the seed (%d entries wanted in root 0, limit %d) failed: %s", i+1, n, s.limit(), dbh.ShortErr(err))}
		}
	}
	vrt.Quiesce()
	if err := in.Close(); err != nil {
		return nil, err
	}
	vrt.Quiesce()
	sn, err := dbh.TakeSnapshot([]string{in.DBPath}, 1<<20)
	if err != nil {
		return nil, err
	}
	seedCache[s] = sn
	return sn, nil
}

type seedWriteError struct{ msg string }

func (e *seedWriteError) Error() string { return e.msg }

type dirState map[string]int // "<root index>/<dir name>" -> entries

func scan(in *dbh.Inst, limit int) (dirState, *enum.Mismatch) {
	st := dirState{}
	for i, root := range in.Roots {
		ents, err := os.ReadDir(root)
		if err != nil {
			return nil, &enum.Mismatch{What: "cannot read root: " + err.Error(), Sig: "dirs|root-unreadable"}
		}
		for _, e := range ents {
			p := filepath.Join(root, e.Name())
			if !e.IsDir() {
				return nil, &enum.Mismatch{What: fmt.Sprintf("regular file %s directly inside root %d", e.Name(), i), Sig: "dirs|file-directly-in-root"}
			}
			if uuid.Validate(e.Name()) != nil {
				return nil, &enum.Mismatch{What: fmt.Sprintf("directory %q in root %d is not UUID-named", e.Name(), i), Sig: "dirs|non-uuid-directory"}
			}
			sub, err := os.ReadDir(p)
			if err != nil {
				return nil, &enum.Mismatch{What: err.Error(), Sig: "dirs|dir-unreadable"}
			}
			for _, f := range sub {
				if f.IsDir() {
					return nil, &enum.Mismatch{What: fmt.Sprintf("nested directory %s/%s in root %d", e.Name(), f.Name(), i), Sig: "dirs|nested-directory"}
				}
			}
			st[fmt.Sprintf("%d/%s", i, e.Name())] = len(sub)
			if len(sub) > limit {
				return nil, &enum.Mismatch{What: fmt.Sprintf("directory %s in root %d holds %d entries, limit %d", e.Name(), i, len(sub), limit), Sig: "dirs|limit-exceeded"}
			}
		}
	}
	return st, nil
}

// landed returns the directory whose entry count grew between two scans.
func landed(before, after dirState) string {
	for d, n := range after {
		if n > before[d] {
			return d
		}
	}
	return ""
}

type world struct {
	seed  seedSpec
	in    *dbh.Inst
	live  []string // live keys, oldest first
	vals  map[string]int
	step  int
	steps int64
	cks   int64
	perm  int
}

func (w *world) open() error {
	in, err := dbh.Open(w.seed.spec())
	w.in = in
	return err
}

func (w *world) setFree(only int) {
	for i, r := range w.in.Roots {
		switch {
		case only < 0 || only == i:
			disk.SetFree(r, disk.DefaultFree)
		default:
			disk.SetFree(r, 0)
		}
	}
}

// apply executes one operation letter; returns the directory a new file landed in (for writes).
func (w *world) apply(op byte) (string, *enum.Mismatch) {
	w.step++
	w.steps++
	ctx := context.Background()
	limit := w.seed.limit()
	before, m := scan(w.in, limit)
	if m != nil {
		return "", m
	}
	write := func(key string, only int) (string, *enum.Mismatch) {
		w.setFree(only)
		id := 5000 + w.step
		if err := w.in.DB.Set(ctx, key, dbh.Content(id, 8)); err != nil {
			return "", &enum.Mismatch{What: fmt.Sprintf("Set(%q) failed (op %c, only-root %d): %s", key, op, only, dbh.ShortErr(err)), Sig: "dirs|write-failed-" + dbh.Class(err).String()}
		}
		w.setFree(-1)
		if _, ok := w.vals[key]; !ok {
			w.live = append(w.live, key)
		}
		w.vals[key] = id
		after, m := scan(w.in, limit)
		if m != nil {
			return "", m
		}
		d := landed(before, after)
		if d == "" {
			return "", &enum.Mismatch{What: fmt.Sprintf("Set(%q) succeeded but no directory gained an entry", key), Sig: "dirs|write-landed-nowhere"}
		}
		if only >= 0 && !strings.HasPrefix(d, fmt.Sprintf("%d/", only)) {
			return "", &enum.Mismatch{What: fmt.Sprintf("Set(%q) with free space only in root %d landed in %s", key, only, d), Sig: "dirs|write-landed-in-full-root"}
		}
		return d, nil
	}
	var dir string
	switch op {
	case 'N', 'M':
		w.perm = 0
		if op == 'M' {
			w.perm = 1
		}
		dir, m = write(fmt.Sprintf("n%03d", w.step), -1)
	case 'P', 'Q':
		w.perm = 0
		dir, m = write(fmt.Sprintf("n%03d", w.step), int(op-'P'))
	case 'O':
		w.perm = 0
		if len(w.live) > 0 {
			dir, m = write(w.live[0], -1)
		}
	case 'D':
		if len(w.live) > 0 {
			k := w.live[0]
			if err := w.in.DB.Delete(ctx, k); err != nil {
				return "", &enum.Mismatch{What: "Delete failed: " + dbh.ShortErr(err), Sig: "dirs|delete-failed"}
			}
			w.live = w.live[1:]
			delete(w.vals, k)
		}
	case 'G':
		dbh.GC()
	case 'R':
		if err := w.in.Close(); err != nil {
			return "", &enum.Mismatch{What: "Close failed: " + dbh.ShortErr(err), Sig: "dirs|close-failed"}
		}
		dbh.NewProcess()
		if err := w.open(); err != nil {
			return "", &enum.Mismatch{What: "Open failed: " + dbh.ShortErr(err), Sig: "dirs|open-failed"}
		}
	}
	if m != nil {
		return "", m
	}
	vrt.Quiesce()
	if _, m := scan(w.in, limit); m != nil {
		m.What = fmt.Sprintf("after op %c: %s", op, m.What)
		return "", m
	}
	w.cks++
	// sanity: the newest live key still reads back
	if n := len(w.live); n > 0 {
		k := w.live[n-1]
		b, err := w.in.DB.Get(ctx, k)
		if err != nil || !bytes.Equal(b, dbh.Content(w.vals[k], 8)) {
			return "", &enum.Mismatch{What: fmt.Sprintf("after op %c: Get(%q) = %s", op, k, dbh.ShortErr(err)), Sig: "dirs|readback-failed"}
		}
	}
	return dir, nil
}

type family struct {
	seeds []seedSpec
	alpha map[int]string // roots -> alphabet
	depth int
	count []int64 // cases per seed
	reuse bool
}

func pow(b, e int) int64 {
	r := int64(1)
	for i := 0; i < e; i++ {
		r *= int64(b)
	}
	return r
}

func (f *family) decode(i int64) (seedSpec, string) {
	for si, s := range f.seeds {
		if i < f.count[si] {
			a := f.alpha[s.Roots]
			ops := make([]byte, f.depth)
			for k := f.depth - 1; k >= 0; k-- {
				ops[k] = a[i%int64(len(a))]
				i /= int64(len(a))
			}
			return s, string(ops)
		}
		i -= f.count[si]
	}
	panic("index out of range")
}

// run executes one history; perms dictates the shuffle order of the final probe (index into the
// permutations; -1: none) and reports where that probe landed.
func (f *family) run(seed seedSpec, ops string, probeRoot, probePerm int) (o *enum.Outcome, final dirState, probeDir string) {
	o = &enum.Outcome{}
	verdict := seq.RunManaged(func() {
		vrt.SetBranching(false)
		sn, err := buildSeed(seed)
		if err != nil {
			if we, ok := err.(*seedWriteError); ok {
				o.Mismatch = &enum.Mismatch{What: fmt.Sprintf("seed %+v: %s", seed, we.msg), Sig: "dirs|root-offers-no-directory"}
				return
			}
			o.Infra = err.Error()
			return
		}
		if err := sn.Restore(); err != nil {
			o.Infra = err.Error()
			return
		}
		w := &world{seed: seed, vals: map[string]int{}}
		// perm j means: the j-th candidate directory (in the deterministic listing order) is tried first,
		// the others keep their order — every candidate can be brought to the front, however many there are
		rand.ShuffleHook = func(n int) int {
			if n <= 1 {
				return 0
			}
			return (w.perm % n) * fact(n-1)
		}
		defer func() { rand.ShuffleHook = nil }()
		for i := 0; i < seed.seedKeys(); i++ {
			k := fmt.Sprintf("s%03d", i)
			w.live = append(w.live, k)
			w.vals[k] = 1000 + i
		}
		if err := w.open(); err != nil {
			o.Mismatch = &enum.Mismatch{What: "Open on the seed failed: " + dbh.ShortErr(err), Sig: "dirs|open-failed"}
			return
		}
		defer func() {
			w.in.Close()
			o.Steps, o.Checks = w.steps, w.cks
		}()
		vrt.Quiesce()
		for i := 0; i < len(seed.Prelude); i++ {
			if _, m := w.apply(seed.Prelude[i]); m != nil {
				m.What = fmt.Sprintf("seed %+v, prelude step %d: %s", seed, i+1, m.What)
				o.Mismatch = m
				return
			}
		}
		for i := 0; i < len(ops); i++ {
			if _, m := w.apply(ops[i]); m != nil {
				m.What = fmt.Sprintf("seed %+v, history %s, step %d: %s", seed, ops, i+1, m.What)
				o.Mismatch = m
				return
			}
		}
		st, m := scan(w.in, seed.limit())
		if m != nil {
			o.Mismatch = m
			return
		}
		final = st
		if probePerm >= 0 {
			w.perm = probePerm
			before := st
			w.setFree(probeRoot)
			w.step++
			if err := w.in.DB.Set(context.Background(), fmt.Sprintf("probe%03d", w.step), dbh.Content(9000, 8)); err != nil {
				o.Mismatch = &enum.Mismatch{What: fmt.Sprintf("seed %+v, history %s: probe Set with only root %d free failed: %s", seed, ops, probeRoot, dbh.ShortErr(err)), Sig: "dirs|root-offers-no-directory"}
				return
			}
			after, m := scan(w.in, seed.limit())
			if m != nil {
				o.Mismatch = m
				return
			}
			probeDir = landed(before, after)
		}
	})
	if verdict != "" && o.Mismatch == nil && o.Infra == "" {
		o.Mismatch = &enum.Mismatch{What: verdict, Sig: "dirs|scheduler|" + strings.SplitN(verdict, ":", 2)[0]}
	}
	return
}

func fact(n int) int {
	f := 1
	for i := 2; i <= n; i++ {
		f *= i
		if f > 1<<20 {
			return 1 << 20
		}
	}
	return f
}

func (f *family) runCase(i int64) *enum.Outcome {
	seed, ops := f.decode(i)
	o, final, _ := f.run(seed, ops, -1, -1)
	if o.Mismatch != nil || o.Infra != "" || final == nil {
		return o
	}
	var fp uint64 = uint64(seed.Fill)*31 + uint64(seed.Roots)
	var names []string
	for d, n := range final {
		names = append(names, fmt.Sprintf("%s=%d", d[:1], n))
	}
	sort.Strings(names)
	for _, c := range strings.Join(names, ",") {
		fp = (fp ^ uint64(c)) * 1099511628211
	}
	o.States = []uint64{fp}
	// every root offers a directory; every directory with room is used again for some shuffle order
	for r := 0; r < seed.Roots; r++ {
		want := map[string]bool{}
		n := 0
		for d, cnt := range final {
			if strings.HasPrefix(d, fmt.Sprintf("%d/", r)) {
				n++
				if cnt < seed.limit() && f.reuse {
					want[d] = true
				}
			}
		}
		tries := len(final) + 3 // every candidate (existing directories plus those a rotation creates) in front once
		if !f.reuse {
			tries = 1
		}
		for p := 0; p < tries && (p == 0 || len(want) > 0); p++ {
			po, _, dir := f.run(seed, ops, r, p)
			o.Steps += po.Steps
			o.Checks++
			if po.Mismatch != nil || po.Infra != "" {
				po.Steps = o.Steps
				return po
			}
			if dir == "" || !strings.HasPrefix(dir, fmt.Sprintf("%d/", r)) {
				o.Mismatch = &enum.Mismatch{What: fmt.Sprintf("seed %+v, history %s: probe with only root %d free landed in %q", seed, ops, r, dir), Sig: "dirs|root-offers-no-directory"}
				return o
			}
			delete(want, dir)
		}
		if len(want) > 0 {
			var ds []string
			for d := range want {
				ds = append(ds, fmt.Sprintf("%s(%d entries)", d, final[d]))
			}
			sort.Strings(ds)
			o.Mismatch = &enum.Mismatch{What: fmt.Sprintf("seed %+v, history %s: directories with room are never written to, whatever the shuffle order: %v (limit %d)", seed, ops, ds, seed.limit()),
				Sig: "dirs|directory-with-room-not-reused"}
			return o
		}
	}
	return o
}

func init() {
	enum.Register("dirs", func(p string) *enum.Family {
		f := &family{depth: 4, alpha: map[int]string{1: "NMODGR", 2: "NMODGRPQ"}, reuse: true}
		limits := []uint64{7, 101}
		roots := []int{1, 2}
		var only map[string]bool
		prelude := ""
		spell := 0
		for _, kv := range strings.Split(p, ",") {
			if i := strings.IndexByte(kv, '='); i > 0 {
				k, v := kv[:i], kv[i+1:]
				switch k {
				case "depth":
					fmt.Sscan(v, &f.depth)
				case "limits":
					limits = nil
					for _, x := range strings.Split(v, ".") {
						var n uint64
						fmt.Sscan(x, &n)
						limits = append(limits, n)
					}
				case "roots":
					roots = nil
					for _, x := range strings.Split(v, ".") {
						var n int
						fmt.Sscan(x, &n)
						roots = append(roots, n)
					}
				case "reuse":
					f.reuse = v != "0"
				case "prelude":
					prelude = v
				case "spell":
					fmt.Sscan(v, &spell)
				case "layouts":
					only = map[string]bool{}
					for _, x := range strings.Split(v, ".") {
						if x == "one" {
							x = ""
						}
						only[x] = true
					}
				}
			}
		}
		for _, r := range roots {
			for _, l := range limits {
				layouts := []string{"", "two"}
				if r == 2 {
					layouts = append(layouts, "both")
				}
				for _, lay := range layouts {
					if only != nil && !only[lay] {
						continue
					}
					s := seedSpec{Roots: r, CfgLimit: l, Layout: lay, Prelude: prelude, Spelling: spell}
					for _, d := range []int{2, 1, 0} {
						if lay != "" && d == 2 {
							continue
						}
						s.Fill = s.limit() - d
						f.seeds = append(f.seeds, s)
						f.count = append(f.count, pow(len(f.alpha[r]), f.depth))
					}
				}
			}
		}
		var total int64
		for _, c := range f.count {
			total += c
		}
		return &enum.Family{
			Count:    func() int64 { return total },
			Describe: func(i int64) any { s, ops := f.decode(i); return map[string]any{"seed": s, "history": ops} },
			Run:      f.runCase,
		}
	})
}
