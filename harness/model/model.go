// Package model is the sequential reference model of fs_db, written from the property statements
// (C01–C03, C13), not from the code: a logical clock, the committed history of every key, and the
// open transactions with their own writes. It defines nothing about I/O errors, space or directories.
package model

import (
	"sort"
)

// Level mirrors the four isolation levels (same numeric values as the public constants).
type Level int

const (
	RU Level = iota
	RC
	RR
	SER
)

func (l Level) String() string { return [...]string{"RU", "RC", "RR", "SER"}[l] }

func (l Level) Snapshot() bool { return l == RR || l == SER }

// Err is an error class.
type Err int

const (
	OK Err = iota
	ErrNotFound
	ErrEmptyKey
	ErrTxNotFound
	ErrTxSerialization
	ErrOther
)

func (e Err) String() string {
	return [...]string{"nil", "ErrNotFound", "ErrEmptyKey", "ErrTxNotFound", "ErrTxSerialization", "other-error"}[e]
}

// Val identifies a written value: the id of the write (0 = no value) — a deletion is Del.
type Val struct {
	ID  int
	Del bool
}

type event struct {
	val   Val
	time  int
	owner int // -1: committed; else transaction slot of an uncommitted write
}

type TxState int

const (
	TxUnused TxState = iota
	TxOpen
	TxCommitted
	TxFailed
	TxRolledBack
)

type Tx struct {
	State  TxState
	Level  Level
	Begin  int
	Writes map[string][]event // own writes per key, in order
}

type Model struct {
	Clock  int
	Commit map[string][]event // committed history per key (time ascending)
	All    map[string][]event // every live version in push order (committed and uncommitted): the RU view
	Txs    []*Tx
}

func New(slots int) *Model {
	m := &Model{Commit: map[string][]event{}, All: map[string][]event{}}
	for i := 0; i < slots; i++ {
		m.Txs = append(m.Txs, &Tx{})
	}
	return m
}

func (m *Model) Clone() *Model {
	c := &Model{Clock: m.Clock, Commit: map[string][]event{}, All: map[string][]event{}}
	for k, v := range m.Commit {
		c.Commit[k] = append([]event(nil), v...)
	}
	for k, v := range m.All {
		c.All[k] = append([]event(nil), v...)
	}
	for _, t := range m.Txs {
		nt := &Tx{State: t.State, Level: t.Level, Begin: t.Begin}
		if t.Writes != nil {
			nt.Writes = map[string][]event{}
			for k, v := range t.Writes {
				nt.Writes[k] = append([]event(nil), v...)
			}
		}
		c.Txs = append(c.Txs, nt)
	}
	return c
}

func (m *Model) tick() int { m.Clock++; return m.Clock }

func last(evs []event) (event, bool) {
	if len(evs) == 0 {
		return event{}, false
	}
	return evs[len(evs)-1], true
}

// Auto is the autocommit actor.
const Auto = -1

func (m *Model) open(slot int) *Tx {
	if slot < 0 || slot >= len(m.Txs) {
		return nil
	}
	if t := m.Txs[slot]; t.State == TxOpen {
		return t
	}
	return nil
}

// Finished reports whether the slot holds an ended transaction (handle still in the client's hands).
func (m *Model) Finished(slot int) bool {
	if slot < 0 || slot >= len(m.Txs) {
		return false
	}
	s := m.Txs[slot].State
	return s == TxCommitted || s == TxFailed || s == TxRolledBack
}

// Begin opens a transaction in the slot.
func (m *Model) Begin(slot int, l Level) {
	m.Txs[slot] = &Tx{State: TxOpen, Level: l, Begin: m.tick(), Writes: map[string][]event{}}
}

// Write applies Set (del=false) or Delete through the actor. valID identifies the write.
func (m *Model) Write(actor int, key string, valID int, del bool) Err {
	if key == "" && !del {
		return ErrEmptyKey
	}
	v := Val{ID: valID, Del: del}
	if actor == Auto {
		e := event{val: v, time: m.tick(), owner: -1}
		m.Commit[key] = append(m.Commit[key], e)
		m.All[key] = append(m.All[key], e)
		return OK
	}
	t := m.open(actor)
	if t == nil {
		return ErrTxNotFound
	}
	e := event{val: v, time: m.tick(), owner: actor}
	t.Writes[key] = append(t.Writes[key], e)
	m.All[key] = append(m.All[key], e)
	return OK
}

func (m *Model) dropOwner(slot int) {
	for k, evs := range m.All {
		out := evs[:0:0]
		for _, e := range evs {
			if e.owner != slot {
				out = append(out, e)
			}
		}
		m.All[k] = out
	}
}

// CommitTx commits the slot.
func (m *Model) CommitTx(slot int) Err {
	t := m.open(slot)
	if t == nil {
		return ErrTxNotFound
	}
	if t.Level.Snapshot() {
		for k, ws := range t.Writes {
			if len(ws) == 0 {
				continue
			}
			if c, ok := last(m.Commit[k]); ok && c.time > t.Begin {
				m.dropOwner(slot)
				t.State = TxFailed
				return ErrTxSerialization
			}
		}
	}
	m.dropOwner(slot)
	keys := make([]string, 0, len(t.Writes))
	for k := range t.Writes {
		keys = append(keys, k)
	}
	sort.Strings(keys)
	for _, k := range keys {
		w, ok := last(t.Writes[k])
		if !ok {
			continue
		}
		e := event{val: w.val, time: m.tick(), owner: -1}
		m.Commit[k] = append(m.Commit[k], e)
		m.All[k] = append(m.All[k], e)
	}
	t.State = TxCommitted
	return OK
}

// Rollback ends the slot's transaction; a finished or unknown one is a harmless no-op.
func (m *Model) Rollback(slot int) Err {
	t := m.open(slot)
	if t == nil {
		return OK
	}
	m.dropOwner(slot)
	t.State = TxRolledBack
	return OK
}

// Get returns the value the actor must read for key.
func (m *Model) Get(actor int, key string) (Val, Err) {
	var v Val
	var have bool
	if actor == Auto {
		if c, ok := last(m.Commit[key]); ok {
			v, have = c.val, true
		}
	} else {
		t := m.open(actor)
		if t == nil {
			return Val{}, ErrTxNotFound
		}
		own, hasOwn := last(t.Writes[key])
		switch {
		case t.Level == RU:
			if e, ok := last(m.All[key]); ok {
				v, have = e.val, true
			}
		case t.Level == RC:
			c, hasC := last(m.Commit[key])
			switch {
			case hasOwn && (!hasC || own.time > c.time):
				v, have = own.val, true
			case hasC:
				v, have = c.val, true
			}
		default: // RR, SER
			if hasOwn {
				v, have = own.val, true
			} else {
				cs := m.Commit[key]
				for i := len(cs) - 1; i >= 0; i-- {
					if cs[i].time < t.Begin {
						v, have = cs[i].val, true
						break
					}
				}
			}
		}
	}
	if !have || v.Del {
		return Val{}, ErrNotFound
	}
	return v, OK
}

// Keys lists every key the model ever saw.
func (m *Model) Keys() []string {
	set := map[string]bool{}
	for k := range m.All {
		set[k] = true
	}
	for k := range m.Commit {
		set[k] = true
	}
	ks := make([]string, 0, len(set))
	for k := range set {
		ks = append(ks, k)
	}
	sort.Strings(ks)
	return ks
}

// GetKeys returns the sorted keys whose Get succeeds for the actor.
func (m *Model) GetKeys(actor int) ([]string, Err) {
	if actor != Auto && m.open(actor) == nil {
		return nil, ErrTxNotFound
	}
	var out []string
	for _, k := range m.Keys() {
		if _, e := m.Get(actor, k); e == OK {
			out = append(out, k)
		}
	}
	return out, OK
}

// Restart models Close+Open (or a crash and recovery): open transactions are gone.
func (m *Model) Restart() {
	for i, t := range m.Txs {
		if t.State == TxOpen {
			m.dropOwner(i)
		}
		m.Txs[i] = &Tx{}
	}
}

// OpenSlots returns the slots with an open transaction.
func (m *Model) OpenSlots() []int {
	var out []int
	for i, t := range m.Txs {
		if t.State == TxOpen {
			out = append(out, i)
		}
	}
	return out
}

// FreeSlot returns the lowest unused slot, or -1.
func (m *Model) FreeSlot() int {
	for i, t := range m.Txs {
		if t.State == TxUnused {
			return i
		}
	}
	return -1
}

// Committed returns the committed value of every key that has one (live keys only).
func (m *Model) Committed() map[string]Val {
	out := map[string]Val{}
	for k, cs := range m.Commit {
		if c, ok := last(cs); ok && !c.val.Del {
			out[k] = c.val
		}
	}
	return out
}

// Fingerprint is a canonical encoding of the model state (for counting distinct states).
func (m *Model) Fingerprint() uint64 {
	h := uint64(1469598103934665603)
	mix := func(x uint64) { h ^= x; h *= 1099511628211 }
	for _, k := range m.Keys() {
		for _, c := range k {
			mix(uint64(c))
		}
		mix(0xFF)
		for _, e := range m.All[k] {
			mix(uint64(e.val.ID)<<2 | b2u(e.val.Del)<<1)
			mix(uint64(e.owner + 2))
		}
		mix(0xFE)
		// relative order of commits against transaction begins matters for snapshot reads
		for _, e := range m.Commit[k] {
			mix(uint64(e.val.ID)<<1 | b2u(e.val.Del))
			for _, t := range m.Txs {
				if t.State == TxOpen {
					mix(b2u(e.time < t.Begin))
				}
			}
		}
	}
	for _, t := range m.Txs {
		mix(uint64(t.State)<<4 | uint64(t.Level))
	}
	return h
}

func b2u(b bool) uint64 {
	if b {
		return 1
	}
	return 0
}
