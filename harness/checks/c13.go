package checks

import (
	"time"

	"github.com/glebziz/fs_db/verifh/conc"
	"github.com/glebziz/fs_db/verifh/enum"
	_ "github.com/glebziz/fs_db/verifh/grpch"
	"github.com/glebziz/fs_db/verifh/hk"
	"github.com/glebziz/fs_db/verifh/seq"
)

func init() {
	table["C13"] = c13
	table["C14"] = c14
	table["C09"] = c09
}

func c13(tier string) int {
	plans := []seq.Plan{
		{Family: "late", Params: "slots=2,levels=RU.RC.RR", From: 1, To: 4},
		{Family: "grpc-late", Params: "slots=1,levels=RU.RC", From: 1, To: 3},
	}
	if tier == "thorough" {
		plans = []seq.Plan{
			{Family: "late", Params: "slots=2", From: 1, To: 5},
			{Family: "late", Params: "slots=3,levels=RU.RR,unknown=0", From: 1, To: 6},
			{Family: "grpc-late", Params: "slots=2", From: 1, To: 4},
		}
	}
	conf := []seq.Plan{{Family: "real-late", Params: "slots=1,levels=RU.RC", From: 3, To: 3}}
	if tier == "thorough" {
		conf = []seq.Plan{{Family: "real-late", Params: "slots=2,levels=RU.RC.RR", From: 4, To: 4}}
	}
	return seqCheckConf("C13", tier, 90*time.Second, 10*time.Minute, plans, conf,
		"all histories up to the stated depth in which, besides Begin/Set/Commit/Rollback and autocommit writes, every operation (Get, GetReader, GetKeys, Set, SetReader, Create, Delete, Commit, Rollback) is issued through handles of finished transactions (committed, failed, rolled back) and through a transaction id the database never issued (Commit and Rollback also naming the all-zero id and no id); after every step all open transactions (RU included), the autocommit handle and the finished handles read; restart and re-read at the end",
		append([]string{"Commit/Rollback naming a never-issued id, the all-zero id (the store's own name for 'no transaction') or no id at all are issued without a handle: a raw protocol call in the gRPC tier, the transaction use case of the instance's container (what the server's handler calls) in the inline tier"}, seqAssumptions...))
}

func c14(tier string) int {
	plans := []seq.Plan{
		{Family: "disk", Params: "keys=1,slots=2,gc=1", From: 1, To: 6},
		{Family: "disk", Params: "keys=2,slots=2,levels=RC.RR,gc=1", From: 1, To: 4},
		{Family: "disk", Params: "keys=1,slots=2,levels=RC.RR,close=1", From: 1, To: 4},
	}
	if tier == "thorough" {
		plans = []seq.Plan{
			{Family: "disk", Params: "keys=1,slots=2,gc=1", From: 1, To: 7},
			{Family: "disk", Params: "keys=2,slots=2,levels=RC.RR", From: 1, To: 6},
			{Family: "disk", Params: "keys=1,slots=2,close=1", From: 1, To: 6},
			{Family: "disk", Params: "keys=2,slots=3,levels=RC.RR,close=1", From: 1, To: 5},
		}
	}
	bulk := []enum.Plan{{Family: "bulk", Params: "maxn=24"}, {Family: "bulk", Params: "large=1,maxn=1025"}}
	if tier == "thorough" {
		bulk = []enum.Plan{{Family: "bulk", Params: "maxn=64"}, {Family: "bulk", Params: "large=1,maxn=2049"}}
	}
	return seqEnumCheck("C14", tier, 240*time.Second, 15*time.Minute, plans, bulk,
		"all fault-free histories up to the stated depth of autocommit and transactional writes, deletes, commits, failed commits, rollbacks and (one-key plan) collection passes at any position; epilogue: roll back what is open, exact quiescence, one GC pass, quiescence, then the roots must hold exactly one content file per readable key with that key's bytes, all directly inside <root>/<uuid>/; variant close=1: Close immediately after the history (work pending), new process, reopen, same epilogue; plus the size dimension (family bulk): one transaction or the autocommit caller issuing n = 1..24 (thorough 64) writes in six shapes (n overwrites of one key committed / rolled back / autocommitted, n keys committed and reopened, n keys in a refused snapshot commit, n keys deleted), same epilogue with and without a restart; and sparse large sizes (63..1025, thorough 2049, around powers of two and 1000) for the three shapes that hand the cleaner one big batch",
		seqAssumptions)
}

func c09(tier string) int {
	plans := []seq.Plan{
		{Family: "gcdiff", Params: "keys=1,slots=2,levels=RR.RU.RC,maxgc=2", From: 1, To: 5},
		{Family: "heldreader", Params: "keys=1,slots=2,levels=RR.RU.RC", From: 1, To: 4},
	}
	if tier == "thorough" {
		plans = []seq.Plan{
			{Family: "gcdiff", Params: "keys=1,slots=3,levels=RR.RU.RC,maxgc=9", From: 1, To: 5},
			{Family: "gcdiff", Params: "keys=1,slots=2,levels=RR.RU.RC,maxgc=9", From: 6, To: 6},
			{Family: "gcdiff", Params: "keys=2,slots=2,levels=RR.RC,maxgc=2", From: 1, To: 5},
			{Family: "heldreader", Params: "keys=1,slots=2,levels=RR.RU.RC", From: 1, To: 5},
		}
	}
	ages := []enum.Plan{{Family: "ages", Params: "maxn=12"}}
	if tier == "thorough" {
		ages = []enum.Plan{{Family: "ages", Params: "maxn=40"}}
	}
	return seqEnumCheck("C09", tier, 240*time.Second, 25*time.Minute, plans, ages,
		"every GC-free history up to the stated depth (snapshot, RC and RU transactions of different ages, several versions per key) re-run with the collector (virtual GC period elapsing, production path Sched->Send->worker->DeleteOld) inserted at every subset of positions of size <= maxgc, including before the first operation of a just-begun transaction and between its reads; every read of every actor after every step equals the model, for which GC is the identity, and delivers its bytes (every collection pass runs while each actor holds an open reader on every key it can read; the readers are drained after the pass); reads in progress (family heldreader): a reader opened at any position through the autocommit caller or an open transaction, one collection pass at or after it, drained at the end of the history — it must deliver the whole value it was opened on; plus the age dimension (family ages): n = 1..12 (thorough 40) transactions begun one after another with an overwrite after each, five level patterns, the collector after the last Begin and after every end with a further overwrite after each, four end orders (one ends all but the youngest back to back so that one pass trims a long history while a snapshot is open), Rollback or Commit, two background policies — every open transaction reads its own version after every step",
		seqAssumptions)
}

// seqEnumCheck: sequential plans plus enumerated case families under one reporter and budget.
func seqEnumCheck(id, tier string, quick, thorough time.Duration, plans []seq.Plan, eplans []enum.Plan, rule string, assumptions []string) int {
	budget := hk.NewBudget(dur(tier, quick, thorough))
	rp := hk.NewReporter(id)
	// the finite parts first (indexed families, then the property's concurrent programs): the history
	// walker deepens until the budget ends and would otherwise starve them
	es := enum.RunPlans(rp, eplans, budget, verbose())
	var cs *conc.Summary
	if items := extraConc[id]; len(items) > 0 {
		// concurrent programs of the property (schedule explorer), under the same reporter and budget
		pool, err := conc.NewPool(0)
		if err != nil {
			return 3
		}
		b := 2
		if tier == "thorough" {
			b = 3
		}
		var its []conc.Item
		for _, p := range items {
			its = append(its, conc.Item{Name: "db", Params: p.src, MaxBound: b, MaxExecs: 3_000_000, Label: id + "/" + p.name})
		}
		cs = conc.RunItems(rp, pool, its, budget, verbose())
		pool.Close()
	}
	sum := seq.RunPlans(rp, plans, budget, verbose())
	cov := sum.Coverage(rule)
	cov["enumerated_cases_per_family"] = es.Families
	cov["enumerated_cases_complete"] = es.AllComplete
	cov["enumerated_case_comparisons"] = es.Checks
	if ex, ok := cov["exhaustive"].(bool); ok {
		cov["exhaustive"] = ex && es.AllComplete
	}
	if n, ok := cov["traces_validated_against_impl"].(int64); ok {
		cov["traces_validated_against_impl"] = n + es.Cases
	}
	if cs != nil {
		cov["concurrent_executions"] = cs.Execs
		cov["concurrent_completed_bound"] = cs.Completed
		if ex, ok := cov["exhaustive"].(bool); ok {
			cov["exhaustive"] = ex && cs.AllComplete
		}
	}
	ev := &hk.Evidence{PropertyID: id, Tier: tier, Level: "model_checking", Coverage: cov, Assumptions: assumptions}
	return finish(rp, ev, budget)
}

// extraConc: concurrent client programs run by seqEnumCheck next to the sequential plans.
var extraConc = map[string][]prog{
	// C05: whatever state concurrent clients leave behind is the state the next process finds
	"C05": {
		{"two-writers-then-restart", "I:Sa|Sa|Sa;reopen=1"},
		{"rc-commit-vs-write-then-restart", "I:Sa|b01.s0a.c0|Sa;reopen=1"},
		{"delete-vs-write-then-restart", "I:Sa|Da|Sa;reopen=1"},
		{"snapshot-commit-ab-vs-writes-then-restart", "I:Sa.Sb|b02.s0a.s0b.c0|Sa.Sb;reopen=1"},
		{"write-vs-gc-then-restart", "I:Sa|Sa|X;reopen=1"},
	},
}
