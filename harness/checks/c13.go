package checks

import (
	"time"

	_ "github.com/glebziz/fs_db/verifh/grpch"

	"github.com/glebziz/fs_db/verifh/seq"
)

func init() {
	table["C13"] = c13
	table["C14"] = c14
	table["C09"] = c09
}

func c13(tier string) int {
	plans := []seq.Plan{
		{Family: "late", Params: "slots=2,levels=RU.RC.RR", From: 1, To: 4},
		{Family: "grpc-late", Params: "slots=1,levels=RU.RC", From: 1, To: 3},
	}
	if tier == "thorough" {
		plans = []seq.Plan{
			{Family: "late", Params: "slots=2", From: 1, To: 5},
			{Family: "late", Params: "slots=3,levels=RU.RR,unknown=0", From: 1, To: 6},
			{Family: "grpc-late", Params: "slots=2", From: 1, To: 4},
		}
	}
	conf := []seq.Plan{{Family: "real-late", Params: "slots=1,levels=RU.RC", From: 3, To: 3}}
	if tier == "thorough" {
		conf = []seq.Plan{{Family: "real-late", Params: "slots=2,levels=RU.RC.RR", From: 4, To: 4}}
	}
	return seqCheckConf("C13", tier, 90*time.Second, 10*time.Minute, plans, conf,
		"all histories up to the stated depth in which, besides Begin/Set/Commit/Rollback and autocommit writes, every operation (Get, GetReader, GetKeys, Set, SetReader, Create, Delete, Commit, Rollback) is issued through handles of finished transactions (committed, failed, rolled back) and through a transaction id the database never issued; after every step all open transactions (RU included), the autocommit handle and the finished handles read; restart and re-read at the end",
		append([]string{"Commit/Rollback for a never-issued id are exercised through the gRPC client only (the inline client has no handle for it)"}, seqAssumptions...))
}

func c14(tier string) int {
	plans := []seq.Plan{
		{Family: "disk", Params: "keys=1,slots=2", From: 1, To: 5},
		{Family: "disk", Params: "keys=2,slots=2,levels=RC.RR", From: 1, To: 4},
		{Family: "disk", Params: "keys=1,slots=2,levels=RC.RR,close=1", From: 1, To: 4},
	}
	if tier == "thorough" {
		plans = []seq.Plan{
			{Family: "disk", Params: "keys=1,slots=2", From: 1, To: 7},
			{Family: "disk", Params: "keys=2,slots=2,levels=RC.RR", From: 1, To: 6},
			{Family: "disk", Params: "keys=1,slots=2,close=1", From: 1, To: 6},
			{Family: "disk", Params: "keys=2,slots=3,levels=RC.RR,close=1", From: 1, To: 5},
		}
	}
	return seqCheck("C14", tier, 90*time.Second, 15*time.Minute, plans,
		"all fault-free histories up to the stated depth of autocommit and transactional writes, deletes, commits, failed commits and rollbacks; epilogue: roll back what is open, exact quiescence, one GC pass, quiescence, then the roots must hold exactly one content file per readable key with that key's bytes, all directly inside <root>/<uuid>/; variant close=1: Close immediately after the history (work pending), new process, reopen, same epilogue",
		seqAssumptions)
}

func c09(tier string) int {
	plans := []seq.Plan{
		{Family: "gcdiff", Params: "keys=1,slots=2,levels=RR.RU.RC,maxgc=2", From: 1, To: 4},
	}
	if tier == "thorough" {
		plans = []seq.Plan{
			{Family: "gcdiff", Params: "keys=1,slots=3,levels=RR.RU.RC,maxgc=9", From: 1, To: 6},
			{Family: "gcdiff", Params: "keys=2,slots=2,levels=RR.RC,maxgc=2", From: 1, To: 5},
		}
	}
	return seqCheck("C09", tier, 90*time.Second, 15*time.Minute, plans,
		"every GC-free history up to the stated depth (snapshot, RC and RU transactions of different ages, several versions per key) re-run with the collector (virtual GC period elapsing, production path Sched->Send->worker->DeleteOld) inserted at every subset of positions of size <= maxgc, including before the first operation of a just-begun transaction and between its reads; every read of every actor after every step equals the model, for which GC is the identity, and delivers its bytes",
		seqAssumptions)
}
