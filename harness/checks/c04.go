package checks

import (
	"time"

	"github.com/glebziz/fs_db/verifh/conc"
	"github.com/glebziz/fs_db/verifh/hk"

	_ "github.com/glebziz/fs_db/verifh/crash"
	"github.com/glebziz/fs_db/verifh/enum"
)

func init() { table["C04"] = c04 }

func c04(tier string) int {
	plans := []enum.Plan{
		{Family: "crash", Params: "iso;keys=2,slots=1,levels=RC.RR,gc=1;depth=4;deep=1"},
		{Family: "crash", Params: "iso;keys=1,slots=2,levels=RC.RR,gc=1;depth=5;deep=1"},
		// every way of writing (Set, SetReader, Create with several Write calls through the asynchronous
		// pipeline, Delete) on two keys
		{Family: "crash", Params: "kv;keys=2;depth=3;deep=1"},
	}
	if tier == "thorough" {
		plans = []enum.Plan{
			{Family: "crash", Params: "iso;keys=2,slots=2,levels=RC.RR,gc=1;depth=5;deep=1"},
			{Family: "crash", Params: "iso;keys=1,slots=2,levels=RC.RR,gc=1;depth=6;deep=1"},
			{Family: "crash", Params: "iso;keys=2,slots=1,levels=RU.SER,gc=1;depth=5;deep=1"},
			{Family: "crash", Params: "kv;keys=2;depth=4;deep=1"},
		}
	}
	if tier == "thorough" {
		plans = append(plans, enum.Plan{Family: "sigkill", Params: "all"})
	} else {
		plans = append(plans, enum.Plan{Family: "sigkill", Params: "quick"})
	}
	rule, assumptions := c04Texts()
	budget := hk.NewBudget(dur(tier, 180*time.Second, 25*time.Minute))
	rp := hk.NewReporter("C04")
	sum := enum.RunPlans(rp, plans, budget, verbose())
	cov := sum.Coverage(rule)
	// crash points of concurrent executions: a write against a collection pass, every schedule within the
	// deviation bound, every prefix of every schedule's mutation log
	pool, err := conc.NewPool(0)
	if err != nil {
		return 3
	}
	defer pool.Close()
	b := 2
	if tier == "thorough" {
		b = 3
	}
	var items []conc.Item
	for _, op := range []string{"S", "D", "T", "C"} {
		items = append(items, conc.Item{Name: "crash-conc", Params: "op=" + op, MaxBound: b, MaxExecs: 2_000_000, Label: "C04/crash-conc-" + op})
	}
	// two writers of one key (an RC commit / a Set / an RR commit, which may be refused, against an autocommit Set): once both have returned,
	// what a reader is given is what a crash must preserve
	for _, op := range []string{"T", "S", "R"} {
		items = append(items, conc.Item{Name: "crash-conc", Params: "op=" + op + ",vs=S", MaxBound: b, MaxExecs: 2_000_000, Label: "C04/crash-conc-" + op + "-vs-set"})
	}
	// the engine fails inside the commit transaction (k-th record write): Commit reports it, nothing of the
	// refused commit is visible or durable at any later crash point
	for _, at := range []string{"1", "2", "3"} {
		items = append(items, conc.Item{Name: "crash-kvfault", Params: "at=" + at, MaxBound: 0, Label: "C04/crash-kvfault-" + at})
	}
	cs := conc.RunItems(rp, pool, items, budget, verbose())
	cov["concurrent_schedules_crashed"] = cs.Execs
	cov["concurrent_completed_bound"] = cs.Completed
	cov["concurrent_complete"] = cs.AllComplete
	if ex, ok := cov["exhaustive"].(bool); ok {
		cov["exhaustive"] = ex && cs.AllComplete
	}
	ev := &hk.Evidence{PropertyID: "C04", Tier: tier, Level: "fault_enumeration", Coverage: cov, Assumptions: assumptions}
	return finish(rp, ev, budget)
}

func c04Texts() (string, []string) {
	return c04Rule(
		"every workload of the stated depth (autocommit Set/Delete, Begin/Set/Delete/Commit/Rollback at RC and RR, GC; and the autocommit alphabet of C01 with SetReader and Create through the asynchronous pipeline; keys a,b; both background policies) runs once with every persistent mutation logged (file create, each write, remove, mkdir, KV single-key commit, KV multi-key commit); for EVERY prefix of the log, and for the torn variant of every file write, the state is materialised, a new process recovers and reads: the result must be the model after the acknowledged operations or after those plus the one in flight (whole operation), every listed key readable with one complete content; a second recovery must agree; with deep=1 the recovery itself is crashed at each of its mutation points; real-process tier (family sigkill): fixed workloads run in a child process on the real Badger engine and real files, killed by SIGKILL immediately before its n-th counted mutation for every n, recovered by the parent with the real engine; crash points of concurrent executions (scenario crash-conc): an overwrite (Set, or Create + two Writes + Close) / a delete / an RC transaction's commit of a key holding an acknowledged value against a concurrent collection pass — every schedule within 2 (quick) / 3 (thorough) deviations, and for each schedule every prefix of its mutation log materialised, recovered and read: the acknowledged value or the whole value in flight, and only the latter once acknowledged; two writers of one key (a Set, an RC commit, an RR commit against an autocommit Set): what a reader is given once both have returned is what every later crash point must preserve, and an RR commit refused with ErrTxSerialization is never brought back by a crash after it returned; engine failures inside the commit transaction (scenario crash-kvfault: the k-th record write of a two-key commit fails, k = 1..3): Commit must return an error and the committed state stay what it was, live and after a crash at every later point",
		[]string{"process kill, not power loss: every completed file-system call and KV commit is durable, a KV transaction is atomic (Badger's own crash safety is trusted); torn file writes are modelled by a half-written chunk",
			"in-memory Badger engine with full version history (an image takes the volume as of any past commit); bound to the real engine and real SIGKILL by the conformance tier (DESIGN.md §2.9)"})
}

func c04Rule(rule string, assumptions []string) (string, []string) { return rule, assumptions }
