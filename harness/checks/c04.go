package checks

import (
	"time"

	_ "github.com/glebziz/fs_db/verifh/crash"
	"github.com/glebziz/fs_db/verifh/enum"
)

func init() { table["C04"] = c04 }

func c04(tier string) int {
	plans := []enum.Plan{
		{Family: "crash", Params: "iso;keys=2,slots=1,levels=RC.RR,gc=1;depth=4;deep=1"},
		{Family: "crash", Params: "iso;keys=1,slots=2,levels=RC.RR,gc=1;depth=5;deep=1"},
		// every way of writing (Set, SetReader, Create with several Write calls through the asynchronous
		// pipeline, Delete) on two keys
		{Family: "crash", Params: "kv;keys=2;depth=3;deep=1"},
	}
	if tier == "thorough" {
		plans = []enum.Plan{
			{Family: "crash", Params: "iso;keys=2,slots=2,levels=RC.RR,gc=1;depth=5;deep=1"},
			{Family: "crash", Params: "iso;keys=1,slots=2,levels=RC.RR,gc=1;depth=6;deep=1"},
			{Family: "crash", Params: "iso;keys=2,slots=1,levels=RU.SER,gc=1;depth=5;deep=1"},
			{Family: "crash", Params: "kv;keys=2;depth=4;deep=1"},
		}
	}
	if tier == "thorough" {
		plans = append(plans, enum.Plan{Family: "sigkill", Params: "all"})
	} else {
		plans = append(plans, enum.Plan{Family: "sigkill", Params: "quick"})
	}
	return enumCheckLevel("C04", "fault_enumeration", tier, 150*time.Second, 25*time.Minute, plans,
		"every workload of the stated depth (autocommit Set/Delete, Begin/Set/Delete/Commit/Rollback at RC and RR, GC; and the autocommit alphabet of C01 with SetReader and Create through the asynchronous pipeline; keys a,b; both background policies) runs once with every persistent mutation logged (file create, each write, remove, mkdir, KV single-key commit, KV multi-key commit); for EVERY prefix of the log, and for the torn variant of every file write, the state is materialised, a new process recovers and reads: the result must be the model after the acknowledged operations or after those plus the one in flight (whole operation), every listed key readable with one complete content; a second recovery must agree; with deep=1 the recovery itself is crashed at each of its mutation points; real-process tier (family sigkill): fixed workloads run in a child process on the real Badger engine and real files, killed by SIGKILL immediately before its n-th counted mutation for every n, recovered by the parent with the real engine",
		[]string{"process kill, not power loss: every completed file-system call and KV commit is durable, a KV transaction is atomic (Badger's own crash safety is trusted); torn file writes are modelled by a half-written chunk",
			"in-memory Badger engine with full version history (an image takes the volume as of any past commit); bound to the real engine and real SIGKILL by the conformance tier (DESIGN.md §2.9)"})
}
