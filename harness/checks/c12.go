package checks

import (
	"time"

	_ "github.com/glebziz/fs_db/verifh/dbconc"

	"github.com/glebziz/fs_db/verifh/conc"
	"github.com/glebziz/fs_db/verifh/hk"
	"github.com/glebziz/fs_db/verifh/rw"
)

func init() { table["C12"] = c12 }

func c12(tier string) int {
	budget := hk.NewBudget(dur(tier, 150*time.Second, 15*time.Minute))
	rp := hk.NewReporter("C12")
	pool, err := conc.NewPool(0)
	if err != nil {
		return 3
	}
	defer pool.Close()
	var items []conc.Item
	total, parts := 3, 3
	if tier == "thorough" {
		total, parts = 4, 4
	}
	for _, comp := range rw.Compositions(total, parts) {
		for _, buf := range []int{1, 3, 32 * 1024} {
			items = append(items, conc.Item{Name: "rw", Params: rw.Param(comp, buf, 0), MaxBound: 99, Label: "rw"})
		}
	}
	for _, comp := range [][]int{{32768}, {1, 32767}, {32767, 1}, {32769}, {0, 32768}, {32768, 0, 1}, {32767, 0, 2}} {
		items = append(items, conc.Item{Name: "rw", Params: rw.Param(comp, 32*1024, 0), MaxBound: 99, Label: "rw"})
	}
	// large writes through the writer's re-used buffer (64 KiB boundaries; thorough: 1 MiB), read with a
	// buffer of the same order so that the storing side takes few steps
	large := [][]int{{65535, 65536}, {65536, 65536}, {65537, 1}, {1, 65536}}
	lbuf := 128 * 1024
	for _, comp := range large {
		items = append(items, conc.Item{Name: "rw", Params: rw.Param(comp, lbuf, 0), MaxBound: 99, Label: "rw-large"})
	}
	if tier == "thorough" {
		for _, comp := range [][]int{{1 << 20, 1 << 20}, {1<<20 + 1, 7}, {1, 65536, 65536}} {
			items = append(items, conc.Item{Name: "rw", Params: rw.Param(comp, 1<<20, 0), MaxBound: 99, Label: "rw-large"})
		}
	}
	for _, comp := range [][]int{{}, {1}, {1, 1}, {2, 0, 1}} {
		for f := 1; f <= 3; f++ {
			items = append(items, conc.Item{Name: "rw", Params: rw.Param(comp, 3, f), MaxBound: 99, Label: "rw-fail"})
		}
	}
	sum := conc.RunMany(rp, pool, items, budget, verbose())
	// (b) the same through the assembled stack: inline.Open + Create with empty and uneven writes, a
	// concurrent reader and a second creator, deviation-bounded
	b := 2
	if tier == "thorough" {
		b = 3
	}
	var dbItems []conc.Item
	for _, p := range []prog{
		{"create-vs-get", "I:Sa|Ea|Ga"},
		{"create-empty-writes-vs-get", "I:Sa|Fa|Ga.K"},
		{"two-creates", "Ea|Fa"},
		{"create-empty-key-vs-get", "I:Sa|C|Ga"},
		{"create-in-rc-tx-vs-ru-reader", "I:b01|c0|Eb|b10.g1b.r1"},
	} {
		pb := b
		if p.name == "two-creates" || p.name == "create-in-rc-tx-vs-ru-reader" {
			pb = b - 1 // four and five threads: one deviation less
		}
		dbItems = append(dbItems, conc.Item{Name: "db", Params: p.src, MaxBound: pb, MaxExecs: 3_000_000, Label: "C12/" + p.name})
	}
	sum2 := conc.RunItems(rp, pool, dbItems, budget, verbose())
	sum.Execs += sum2.Execs
	sum.Steps += sum2.Steps
	sum.Nodes += sum2.Nodes
	sum.Scenarios += sum2.Scenarios
	sum.AllComplete = sum.AllComplete && sum2.AllComplete
	for k, v := range sum2.Outcomes {
		sum.Outcomes[k] += v
	}
	for k, v := range sum2.Completed {
		sum.Completed[k] = v
	}
	sum.Samples = append(sum.Samples, sum2.Samples...)
	ev := &hk.Evidence{PropertyID: "C12", Tier: tier, Level: "model_checking",
		Coverage:    sum.Coverage("all interleavings (unbounded) of writer and storing side for every split of a content of length <= N into <= M writes including empty ones, reader buffers 1/3/32K, plus 32K-boundary splits and storing-side failures; real internal/utils/async under the controlled scheduler"),
		Assumptions: []string{"the storing side is the io.Copy loop of content.Store reading from the readWriter"}}
	return finish(rp, ev, budget)
}
