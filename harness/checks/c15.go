package checks

import (
	"fmt"
	"os"
	"strings"
	"time"

	"github.com/glebziz/fs_db/verifh/conc"
	"github.com/glebziz/fs_db/verifh/hk"
	"github.com/glebziz/fs_db/verifh/rw"
	"github.com/glebziz/fs_db/verifrt/vrt"
)

func init() { table["C15"] = c15 }

// first use of each operation immediately after Open, from two or three goroutines
var c15FirstUse = []prog{
	{"first-set-set", "Sa|Sb"},
	{"first-get-set", "Ga|Sa"},
	{"first-begin-begin", "b01.r0|b12.r1"},
	{"first-create-keys", "Ca|K"},
	{"first-delete-begin-set", "Da|b01.s0a.c0|Sb"},
	{"two-roots-set-set", "I:Sc|Sa|Sb;r=2"},
	{"cleanup-of-rotated-out-dir-vs-set", "I:Sz|X|Sb;seed=full;w=2"},
	{"two-roots-create-set-two-workers", "I:Sc|Ca|Sb.Ga;r=2;w=2"},
}

func c15(tier string) int {
	if !vrt.RaceEnabled {
		fmt.Fprintln(os.Stderr, "verifh: C15 needs the race-detector build (run through /verif/run)")
		return 2
	}
	budget := hk.NewBudget(dur(tier, 240*time.Second, 30*time.Minute))
	rp := hk.NewReporter("C15")
	conc.ParentRaceSetup()
	pool, err := conc.NewPool(0)
	if err != nil {
		return 3
	}
	defer pool.Close()
	b := 1
	if tier == "thorough" {
		b = 2
	}
	var items []conc.Item
	add := func(prefix string, ps []prog, bound int) {
		for _, p := range ps {
			items = append(items, conc.Item{Name: "db", Params: p.src, MaxBound: bound, Label: prefix + "/" + p.name})
		}
	}
	add("C15", c15FirstUse, b)
	add("C15", c07Programs, b)
	add("C15", c08Programs, b)
	add("C15", c06Programs, b)
	// release points: by default a thread is only preempted before it acquires something; what it does
	// right after leaving a critical section then never interleaves with the next thread entering it,
	// and later lock hand-overs order the two for the race detector. This pass puts a point after every
	// Unlock as well (two transactions ending and beginning on one and on two keys, and the C07 programs).
	relProgs := []prog{
		{"tx-end-vs-tx-first-write", "I:Sa|b01.s0a.c0|b11.s1b.g1b.c1;up=1"},
		{"tx-rollback-vs-tx-first-write", "I:Sa|b01.s0a.r0|b11.s1a.g1a.c1;up=1"},
		{"set-vs-set-vs-get", "I:Sa|Sa|Sb|Ga;up=1"},
	}
	for _, p := range c07Programs {
		relProgs = append(relProgs, prog{p.name + "+release-points", p.src + ";up=1"})
	}
	add("C15", relProgs, b)
	// bulk: one transaction discarding more than a thousand versions at once hands the cleaner several
	// batches, which different pool workers run. One execution is ~10^5 steps, so these programs are
	// explored at bound 0 only — in the run-to-block default schedule and in the round-robin one (rr=1:
	// the default choice at every point is the next thread), in which the workers' jobs overlap (S131).
	add("C15", []prog{
		{"bulk-rollback-two-workers", "b01.s0a*1001.r0;w=2"},
		{"bulk-rollback-two-workers+round-robin", "b01.s0a*1001.r0;w=2;rr=1"},
		{"bulk-commit-two-workers+round-robin", "I:Sa|b01.s0a*1002.c0;w=2;rr=1"},
	}, 0)
	// the round-robin schedule of every other client program as well (one more execution each)
	var rr []prog
	for _, ps := range [][]prog{c15FirstUse, c06Programs, c07Programs, c08Programs} {
		for _, p := range ps {
			rr = append(rr, prog{p.name + "+round-robin", p.src + ";rr=1"})
		}
	}
	add("C15", rr, 0)
	items = append(items,
		conc.Item{Name: "pool-busy", Params: "w=1,k=4,s=2,l=1", MaxBound: b, Label: "C15/pool-busy"},
		conc.Item{Name: "pool-stop", Params: "w=1,k=2,g=1", MaxBound: b, Label: "C15/pool-stop"},
		conc.Item{Name: "pool-stop-busy", MaxBound: b, Label: "C15/pool-stop-busy"},
		conc.Item{Name: "pool-restart-race", Params: "stop=1", MaxBound: b, Label: "C15/pool-restart-race"},
		conc.Item{Name: "pool-sched", Params: "w=1", MaxBound: b, Label: "C15/pool-sched"},
		conc.Item{Name: "rw", Params: rw.Param([]int{1, 0, 2}, 3, 0), MaxBound: b + 1, Label: "C15/rw"},
		conc.Item{Name: "rw", Params: rw.Param([]int{2, 1}, 3, 2), MaxBound: b + 1, Label: "C15/rw-fail"},
	)
	conc.RacesOnly = true
	sum := conc.RunItems(rp, pool, items, budget, verbose())
	// scheduler-level verdicts of these programs belong to C06-C08/C12/C16; here only the races count
	for _, r := range sum.Races {
		rep := &hk.Replay{Engine: "conc-race", Scenario: r.Scenario, Params: r.Params, Verdict: "data race: " + strings.Join(r.Frames, " "), Sig: "race|" + r.Sig, Choices: r.Choices,
			Extra: map[string]any{"frames": r.Frames, "reports": r.Count}}
		rp.Report(rep)
	}
	cov := sum.Coverage("every schedule with at most N deviations of the C06/C07/C08 client programs, first-use programs (first operations of 2-3 goroutines right after Open), worker-pool and readWriter programs, each execution monitored by the Go race detector (scheduler hand-offs hidden from it, shim primitives annotated with the happens-before edges of the real ones); distinct = access-pair signatures + outcomes")
	cov["distinct_race_signatures"] = len(sum.Races)
	ev := &hk.Evidence{PropertyID: "C15", Tier: tier, Level: "model_checking", Coverage: cov,
		Assumptions: []string{"only memory touched by fs_db code (and the instrumented glebziz/containers) in the explored executions; the Badger engine is the in-memory shim, gRPC handlers are not run under the scheduler",
			"a race is identified by the unordered pair of innermost fs_db functions of the two accesses"}}
	return finish(rp, ev, budget)
}
