package checks

import (
	"time"

	"github.com/glebziz/fs_db/verifh/conc"
	"github.com/glebziz/fs_db/verifh/hk"
	_ "github.com/glebziz/fs_db/verifh/pool"
)

func init() { table["C16"] = c16 }

func c16(tier string) int {
	budget := hk.NewBudget(dur(tier, 60*time.Second, 12*time.Minute))
	rp := hk.NewReporter("C16")
	pool, err := conc.NewPool(0)
	if err != nil {
		return 3
	}
	defer pool.Close()
	b := 2
	if tier == "thorough" {
		b = 3
	}
	items := []conc.Item{
		{Name: "pool-send-before-run", MaxBound: 1},
		{Name: "pool-stop-before-run", MaxBound: b},
		{Name: "pool-restart", Params: "w=1", MaxBound: b},
		{Name: "pool-stop-stop", MaxBound: b},
		{Name: "pool-restart-race", Params: "stop=0", MaxBound: b},
		{Name: "pool-restart-race", Params: "stop=1", MaxBound: b},
		{Name: "pool-stop", Params: "w=1,k=2,g=0", MaxBound: b},
		{Name: "pool-stop", Params: "w=1,k=1,g=1", MaxBound: b},
		{Name: "pool-sched", Params: "w=1", MaxBound: b},
		{Name: "pool-stop-busy", MaxBound: b},
		{Name: "pool-stop-busy-restart", MaxBound: b},
		{Name: "pool-stop-deferring", MaxBound: b},
		{Name: "pool-busy", Params: "w=1,k=4,s=1,l=1", MaxBound: b},
		{Name: "pool-busy", Params: "w=1,k=3,s=1,l=1", MaxBound: 3},
		{Name: "pool-busy", Params: "w=1,k=4,s=2,l=0", MaxBound: b},
		{Name: "pool-busy", Params: "w=1,k=1,s=1,l=0", MaxBound: 99, Label: "pool-busy-unbounded"},
		{Name: "pool-busy", Params: "w=2,k=5,s=1,l=1", MaxBound: 1, Label: "pool-busy-two-workers"},
		{Name: "pool-restart", Params: "w=2", MaxBound: 1, Label: "pool-restart-two-workers"},
		// lock discipline under the life-cycle lock: the same programs with the writer preference of
		// sync.RWMutex modelled (a pending Lock blocks new RLocks), one deviation less
		{Name: "pool-stop-busy", Params: "wa=1", MaxBound: b - 1, Label: "pool-stop-busy+writer-preference"},
		{Name: "pool-stop-deferring", Params: "wa=1", MaxBound: b - 1, Label: "pool-stop-deferring+writer-preference"},
		{Name: "pool-stop", Params: "w=1,k=2,g=0,wa=1", MaxBound: b - 1, Label: "pool-stop+writer-preference"},
		{Name: "pool-busy", Params: "w=1,k=4,s=1,l=1,wa=1", MaxBound: b - 1, Label: "pool-busy+writer-preference"},
	}
	if tier == "thorough" {
		items = append(items,
			conc.Item{Name: "pool-stop-busy-restart", Params: "main=1", MaxBound: 2},
			conc.Item{Name: "pool-busy", Params: "w=2,k=5,s=1,l=1", MaxBound: 2},
			conc.Item{Name: "pool-busy", Params: "w=1,k=5,s=3,l=1", MaxBound: 2},
			conc.Item{Name: "pool-stop", Params: "w=2,k=3,g=1", MaxBound: 2},
			conc.Item{Name: "pool-restart", Params: "w=2", MaxBound: 2},
		)
	}
	sum := conc.RunItems(rp, pool, items, budget, verbose())
	ev := &hk.Evidence{PropertyID: "C16", Tier: tier, Level: "model_checking",
		Coverage: sum.Coverage("every schedule of each pool program up to the stated deviation bound (preemptions, early timers, non-default select arms), real internal/utils/wpool under the controlled scheduler; distinct = (program, observable outcome) pairs"),
		Assumptions: []string{"interleavings at visible operations (locks, atomics, channel ops, timers); data-race freedom between them is C15",
			"virtual time: Send's timer fires when nothing else can run, or early at the cost of one deviation"}}
	return finish(rp, ev, budget)
}
