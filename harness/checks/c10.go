package checks

import (
	"time"

	"github.com/glebziz/fs_db/verifh/enum"
	_ "github.com/glebziz/fs_db/verifh/faults"
)

func init() { table["C10"] = c10 }

func c10(tier string) int {
	plans := []enum.Plan{{Family: "faults", Params: "quick"}}
	if tier == "thorough" {
		plans = []enum.Plan{{Family: "faults", Params: "all"}}
	}
	plans = append(plans, c10GrpcPlans(tier)...)
	return enumCheckLevel("C10", "fault_enumeration", tier, 150*time.Second, 15*time.Minute, plans,
		"inline: every single fault at every position — source reader failing at call 1,2,3,last with and without a preceding short read; file write number 1,2,last on each root returning ENOSPC fully or after 1 / half / all-but-one bytes — and pairs of write faults on distinct roots, for every content length of the boundary set, through Set, SetReader and Create, with 1-3 roots, every shuffle order and free-space ordering, with and without a previous value; oracle: error => an independent read returns the previous value (or ErrNotFound), success => stored bytes equal the source, one fault with a bigger root available => success; gRPC: see the grpc-faults family",
		[]string{"ENOSPC is injected at the os wrapper (fully or after a partial write); the real-kernel cross-check on a size-limited tmpfs is part of the thorough conformance tier",
			"Windows error codes are not covered"})
}
