package checks

import (
	"time"

	_ "github.com/glebziz/fs_db/verifh/fam"
	"github.com/glebziz/fs_db/verifh/hk"
	"github.com/glebziz/fs_db/verifh/seq"
)

func init() {
	table["C01"] = c01
	table["C02"] = c02
	table["C03"] = c03
}

func seqCheck(id, tier string, quick, thorough time.Duration, plans []seq.Plan, rule string, assumptions []string) int {
	return seqCheckConf(id, tier, quick, thorough, plans, nil, rule, assumptions)
}

// seqCheckConf additionally replays the conformance plans on the real Badger engine with real files,
// goroutines and time (no scheduler): the same model must be met there.
func seqCheckConf(id, tier string, quick, thorough time.Duration, plans, conf []seq.Plan, rule string, assumptions []string) int {
	budget := hk.NewBudget(dur(tier, quick, thorough))
	rp := hk.NewReporter(id)
	sum := seq.RunPlans(rp, plans, budget, verbose())
	cov := sum.Coverage(rule)
	if len(conf) > 0 {
		cb := hk.NewBudget(dur(tier, quick/2, thorough/3))
		cs := seq.RunPlans(rp, conf, cb, verbose())
		cov["conformance_real_engine_histories"] = cs.Histories
		cov["conformance_real_engine_complete"] = cs.AllComplete
		cov["conformance_real_engine_depths"] = cs.Depths
		cov["traces_validated_against_impl"] = sum.Histories + cs.Histories
		cov["conformance_note"] = "the same histories replayed on the real Badger engine, real files, real goroutines and real time (no scheduler, no shim engine); they must meet the same reference model"
	}
	ev := &hk.Evidence{PropertyID: id, Tier: tier, Level: "model_checking", Coverage: cov, Assumptions: assumptions}
	return finish(rp, ev, budget)
}

var seqAssumptions = []string{
	"single client thread; background work (worker pool, flusher, GC loop) scheduled under two fixed policies: settled after every step, and only when the client blocks",
	"in-memory Badger engine and virtual clock (bound to the real engine by the conformance replay, DESIGN.md §2.9)",
	"contents are 8 bytes unless stated; every write carries a unique value",
}

func c01(tier string) int {
	d := 4
	if tier == "thorough" {
		d = 6
	}
	plans := []seq.Plan{
		{Family: "kv-len", From: 1, To: 3},
		{Family: "kv", Params: "keys=3", From: 1, To: d},
		// the same interface through the gRPC client (the chunking stream writer/reader pair is only on
		// that path); deeper gRPC histories are C11's
		{Family: "grpc-kv-len", From: 1, To: d - 3},
		// the key dimension: a table of unusual keys, histories with reopenings
		{Family: "kv-keys", From: 1, To: d - 1},
		// writes in progress: a created file kept open across other operations and collection passes
		{Family: "heldwriter", Params: "keys=1,slots=2,levels=RC.RR", From: 1, To: d - 1},
	}
	conf := []seq.Plan{{Family: "real-kv", Params: "keys=2", From: 3, To: 3}, {Family: "real-kv-len", From: 2, To: 2}}
	if tier == "thorough" {
		conf = []seq.Plan{{Family: "real-kv", Params: "keys=3", From: 4, To: 4}, {Family: "real-kv-len", From: 3, To: 3}}
	}
	return seqCheckConf("C01", tier, 120*time.Second, 20*time.Minute, plans, conf,
		"all autocommit histories up to the stated depth over Set/SetReader/Create/Delete on 3 keys (one multi-byte UTF-8) plus Set(\"\"); Get, GetReader, GetKeys and Get(never-written) compared with a map model after every step; all content lengths of {0,1,2047,2048,2049,4096,32767,32768,32769,65537} and Create splits on the last write of every history of depth<=3 inline and of depth<=1 (quick) / 3 (thorough) through external.Open against a running server; the key dimension: every history that first writes one of 41 unusual valid-UTF-8 keys (separators, dots, blanks, control characters, NUL, format verbs, the store's record prefixes, multi-byte runes, case/prefix neighbours, lengths 255..70000) and continues over it and a neighbour with writes, deletions and reopenings to depth 3 (quick) / 5 (thorough), all table keys read after every step; writes in progress (family heldwriter): Create and a first Write at one position of a history with transactions, the last Write and Close at the same or a later one, a collection pass optionally right after the first or before the second — the write takes effect at Close, whole, whatever happened in between; states = distinct model states",
		seqAssumptions)
}

func c02(tier string) int {
	plans := []seq.Plan{
		{Family: "iso", Params: "keys=1,slots=2", From: 1, To: 6},
		{Family: "iso", Params: "keys=2,slots=2,deflevel=1", From: 1, To: 5},
		{Family: "iso", Params: "keys=1,slots=2,levels=RC.RR,create=1", From: 1, To: 4},
	}
	if tier == "thorough" {
		plans = []seq.Plan{
			{Family: "iso", Params: "keys=1,slots=2", From: 1, To: 7},
			{Family: "iso", Params: "keys=2,slots=2,deflevel=1", From: 1, To: 6},
			{Family: "iso", Params: "keys=1,slots=3", From: 1, To: 6},
		}
	}
	conf := []seq.Plan{{Family: "real-iso", Params: "keys=1,slots=2,gc=0", From: 3, To: 3}}
	if tier == "thorough" {
		conf = []seq.Plan{{Family: "real-iso", Params: "keys=1,slots=2,gc=0", From: 4, To: 4}, {Family: "real-iso", Params: "keys=2,slots=2,gc=0", From: 3, To: 3}}
	}
	return seqCheckConf("C02", tier, 300*time.Second, 20*time.Minute, plans, conf,
		"all sequential interleavings up to the stated depth of autocommit Set/Delete, Begin(4 levels)/Set/Delete/Commit/Rollback in 2-3 transaction slots and GC at any position; after every step Get of every key and GetKeys through every open transaction and the autocommit handle compared with the isolation model",
		seqAssumptions)
}

func c03(tier string) int {
	plans := []seq.Plan{
		{Family: "iso", Params: "keys=2,slots=2,levels=RC.RR,gc=0,obs=auto,maxw=3", From: 1, To: 5},
		{Family: "iso", Params: "keys=1,slots=2,levels=RU.SER,gc=0,obs=auto,maxw=2", From: 1, To: 5},
		{Family: "iso", Params: "keys=1,slots=2,levels=RC.RR,gc=0,obs=auto,maxw=2", From: 6, To: 6},
		// the two-key plan once more with map ranges iterated in descending key order: both orders of a
		// two-key write set
		{Family: "iso", Params: "keys=2,slots=2,levels=RC.RR,gc=0,obs=auto,maxw=3,mapdesc=1", From: 4, To: 5},
	}
	if tier == "thorough" {
		plans = []seq.Plan{
			{Family: "iso", Params: "keys=2,slots=2,levels=RC.RR,gc=0,obs=auto,maxw=3", From: 1, To: 7},
			{Family: "iso", Params: "keys=1,slots=3,levels=RC.RR,gc=0,obs=auto,maxw=2", From: 1, To: 7},
			{Family: "iso", Params: "keys=2,slots=2,levels=RU.SER,gc=0,obs=auto,maxw=2", From: 1, To: 6},
			{Family: "iso", Params: "keys=2,slots=2,levels=RC.RR,gc=0,obs=auto,maxw=3,mapdesc=1", From: 4, To: 6},
		}
	}
	conf := []seq.Plan{{Family: "real-iso", Params: "keys=2,slots=2,levels=RC.RR,gc=0,obs=auto,maxw=3", From: 3, To: 3}}
	if tier == "thorough" {
		conf = []seq.Plan{{Family: "real-iso", Params: "keys=2,slots=2,levels=RC.RR,gc=0,obs=auto,maxw=3", From: 4, To: 4}}
	}
	return seqCheckConf("C03", tier, 120*time.Second, 25*time.Minute, plans, conf,
		"all sequential interleavings up to the stated depth of transactions (levels as stated, up to 3 writes each, overlapping write sets) and autocommit writes; the error class of every Commit/Rollback and autocommit Get of all keys + GetKeys after every step compared with the model: success publishes exactly the last value per written key, failure/rollback changes nothing, ErrTxSerialization iff snapshot level and a written key was committed after begin",
		seqAssumptions)
}
