package checks

import (
	"time"

	_ "github.com/glebziz/fs_db/verifh/fam"
	"github.com/glebziz/fs_db/verifh/hk"
	"github.com/glebziz/fs_db/verifh/seq"
)

func init() {
	table["C01"] = c01
	table["C02"] = c02
	table["C03"] = c03
}

func seqCheck(id, tier string, quick, thorough time.Duration, plans []seq.Plan, rule string, assumptions []string) int {
	budget := hk.NewBudget(dur(tier, quick, thorough))
	rp := hk.NewReporter(id)
	sum := seq.RunPlans(rp, plans, budget, verbose())
	ev := &hk.Evidence{PropertyID: id, Tier: tier, Level: "model_checking", Coverage: sum.Coverage(rule), Assumptions: assumptions}
	return finish(rp, ev, budget)
}

var seqAssumptions = []string{
	"single client thread; background work (worker pool, flusher, GC loop) scheduled under two fixed policies: settled after every step, and only when the client blocks",
	"in-memory Badger engine and virtual clock (bound to the real engine by the conformance replay, DESIGN.md §2.9)",
	"contents are 8 bytes unless stated; every write carries a unique value",
}

func c01(tier string) int {
	d := 4
	if tier == "thorough" {
		d = 6
	}
	plans := []seq.Plan{
		{Family: "kv-len", From: 1, To: 3},
		{Family: "kv", Params: "keys=3", From: 1, To: d},
	}
	return seqCheck("C01", tier, 90*time.Second, 10*time.Minute, plans,
		"all autocommit histories up to the stated depth over Set/SetReader/Create/Delete on 3 keys (one multi-byte UTF-8) plus Set(\"\"); Get, GetReader, GetKeys and Get(never-written) compared with a map model after every step; all content lengths of {0,1,2047,2048,2049,4096,32767,32768,32769,65537} and Create splits on the last write of every history of depth<=3; states = distinct model states",
		seqAssumptions)
}

func c02(tier string) int {
	plans := []seq.Plan{
		{Family: "iso", Params: "keys=1,slots=2", From: 1, To: 5},
		{Family: "iso", Params: "keys=2,slots=2", From: 1, To: 4},
	}
	if tier == "thorough" {
		plans = []seq.Plan{
			{Family: "iso", Params: "keys=1,slots=2", From: 1, To: 7},
			{Family: "iso", Params: "keys=2,slots=2", From: 1, To: 6},
			{Family: "iso", Params: "keys=1,slots=3", From: 1, To: 6},
		}
	}
	return seqCheck("C02", tier, 90*time.Second, 20*time.Minute, plans,
		"all sequential interleavings up to the stated depth of autocommit Set/Delete, Begin(4 levels)/Set/Delete/Commit/Rollback in 2-3 transaction slots and GC at any position; after every step Get of every key and GetKeys through every open transaction and the autocommit handle compared with the isolation model",
		seqAssumptions)
}

func c03(tier string) int {
	plans := []seq.Plan{
		{Family: "iso", Params: "keys=2,slots=2,levels=RC.RR,gc=0,obs=auto,maxw=3", From: 1, To: 5},
		{Family: "iso", Params: "keys=1,slots=2,levels=RU.SER,gc=0,obs=auto,maxw=2", From: 1, To: 5},
	}
	if tier == "thorough" {
		plans = []seq.Plan{
			{Family: "iso", Params: "keys=2,slots=2,levels=RC.RR,gc=0,obs=auto,maxw=3", From: 1, To: 7},
			{Family: "iso", Params: "keys=1,slots=3,levels=RC.RR,gc=0,obs=auto,maxw=2", From: 1, To: 7},
			{Family: "iso", Params: "keys=2,slots=2,levels=RU.SER,gc=0,obs=auto,maxw=2", From: 1, To: 6},
		}
	}
	return seqCheck("C03", tier, 90*time.Second, 15*time.Minute, plans,
		"all sequential interleavings up to the stated depth of transactions (levels as stated, up to 3 writes each, overlapping write sets) and autocommit writes; the error class of every Commit/Rollback and autocommit Get of all keys + GetKeys after every step compared with the model: success publishes exactly the last value per written key, failure/rollback changes nothing, ErrTxSerialization iff snapshot level and a written key was committed after begin",
		seqAssumptions)
}
