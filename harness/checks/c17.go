package checks

import (
	"time"

	_ "github.com/glebziz/fs_db/verifh/dirs"
	"github.com/glebziz/fs_db/verifh/enum"
)

func init() { table["C17"] = c17 }

func c17(tier string) int {
	plans := []enum.Plan{
		{Family: "dirs", Params: "depth=4,limits=7.101,roots=1.2,layouts=one"},
		{Family: "dirs", Params: "depth=3,limits=7,roots=1.2,layouts=two.both"},
		{Family: "dirs", Params: "depth=4,limits=7,roots=1,layouts=one,prelude=DG"},
		// roots spelled non-canonically in the configuration (trailing slash; a "." element as in the
		// documented default "./testStorage"): what the cleaner re-registers must still match (S132)
		{Family: "dirs", Params: "depth=3,limits=7,roots=1.2,layouts=one.two,spell=1"},
		{Family: "dirs", Params: "depth=3,limits=7,roots=1,layouts=one.two,spell=2"},
	}
	if tier == "thorough" {
		plans = []enum.Plan{
			{Family: "dirs", Params: "depth=5,limits=7.101,roots=1.2,layouts=one"},
			{Family: "dirs", Params: "depth=4,limits=7.101,roots=1.2,layouts=two.both"},
			{Family: "dirs", Params: "depth=5,limits=7,roots=1.2,layouts=one,prelude=DG"},
			{Family: "dirs", Params: "depth=4,limits=7,roots=1,layouts=one,prelude=NDG"},
			{Family: "dirs", Params: "depth=3,limits=0.1.99.100,roots=1.2"},
			{Family: "dirs", Params: "depth=4,limits=7,roots=1.2,spell=1"},
			{Family: "dirs", Params: "depth=4,limits=7,roots=1.2,spell=2"},
		}
	}
	return enumCheck("C17", tier, 180*time.Second, 20*time.Minute, plans,
		"from seeded states (built through the public API) with limit-2, limit-1 and limit entries in the active directory (layouts: one directory; a second, full, rotated-out directory in the same root; one such directory in each of two roots; and the one-directory states after an in-session prelude of a deletion and a collection pass — what the running process remembers is part of the state; and with the roots spelled non-canonically in the configuration: a trailing slash, a \".\" element), for 1 and 2 roots and configured limits that exercise the clamp: every history of the stated depth over Set-new (two shuffle orders), overwrite, delete, GC, reopen and root-restricted probes; after every step (at quiescence): every file directly inside <root>/<uuid>/, no directory above the limit; at the end: for each root a probe Set with only that root reporting free space must land under it, and every directory with room must receive the probe for some shuffle order",
		[]string{"operations issued one at a time (the statement's own restriction); free space comes from the disk shim's table; shuffle orders are dictated by the harness"})
}
