package checks

import (
	"github.com/glebziz/fs_db/verifh/enum"
	_ "github.com/glebziz/fs_db/verifh/grpch"
)

// c10GrpcPlans: the stream faults of C10 (scripted raw client against the real server; real external
// client with failing source / cancelled context).
var c10GrpcPlans = func(tier string) []enum.Plan { return []enum.Plan{{Family: "grpc-faults"}} }
