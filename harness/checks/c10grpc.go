package checks

import "github.com/glebziz/fs_db/verifh/enum"

// c10GrpcPlans is filled in by the gRPC tier (grpc.go) when it is compiled in.
var c10GrpcPlans = func(tier string) []enum.Plan { return nil }
