package checks

import (
	"fmt"
	"os"
	"time"

	"github.com/glebziz/fs_db/verifh/conc"
	"github.com/glebziz/fs_db/verifh/dbconc"
	"github.com/glebziz/fs_db/verifh/hk"
)

func init() {
	table["C06"] = c06
	table["C07"] = c07
	table["C08"] = c08
}

type prog struct {
	name string
	src  string
}

// C06: autocommit and RU/RC clients, a GC actor, shared keys.
var c06Programs = []prog{
	{"set-get-gc", "I:Sa|Sa|Ga|X"},
	{"set-set-get-keys", "I:Sa|Sa|Sa|Ga.K"},
	{"delete-set-get", "I:Sa|Da|Sa|Ga"},
	{"rc-commit-get-ru", "I:Sa|b01.s0a.c0|Ga|b10.g1a.r1"},
	{"rc-rollback-ru-gc", "I:Sa|b01.s0a.r0|b10.g1a.r1|X"},
	{"set-a-set-b-keys", "Sa|Sb|K"},
	{"rc-commit-ab-keys-gc", "I:Sa.Sb.b01.s0a.s0b|c0|K.Ga|X"},
	{"create-get", "I:Sa|Ca|Ga"},
	{"overwrite-chain-reader-gc", "I:Sa.Sa.Sa|Ga.Ga|X|Sa"},
	{"delete-keys-gc", "I:Sa.Sb|Da|K|X"},
	{"two-writers-vs-rc-own-write", "I:Sa|Sa|Sa|b01.s0a.g0a.g0a.r0"},
}

// explored with a scheduling point after every Unlock as well (release points, `up=1`): what a
// client does right after leaving a critical section interleaves with the next client entering it
var c06ReleasePrograms = []prog{
	{"tx-end-vs-tx-first-write", "I:Sa|b01.s0a.c0|b11.s1b.g1b.c1;up=1"},
	{"tx-rollback-vs-tx-first-write", "I:Sa|b01.s0a.r0|b11.s1a.g1a.c1;up=1"},
	{"set-vs-set-vs-get", "I:Sa|Sa|Sb|Ga;up=1"},
}

var c07Programs = []prog{
	{"two-rr-commit-a", "I:Sa.b02.b12.s0a.s1a|c0|c1"},
	{"two-ser-commit-ab-bc", "I:b03.b13.s0a.s0b.s1b.s1c|c0|c1"},
	{"rr-commit-vs-autocommit", "I:Sa.b02.s0a|c0|Sa"},
	{"three-rr-commit-a", "I:b02.b12.b22.s0a.s1a.s2a|c0|c1|c2"},
	{"rr-commit-vs-rc-commit", "I:b02.b11.s0a.s1a|c0|c1"},
	// not from a fresh store: a transaction has committed and another has been rolled back before
	{"two-rr-commit-a-after-earlier-transactions", "I:Sa.b91.s9a.c9.b81.s8a.r8.b02.b12.s0a.s1a|c0|c1"},
}

var c08Programs = []prog{
	{"rr-reader-vs-rc-commit-ab", "I:Sa.Sb.b11.s1a.s1b|c1|b02.g0a.g0b.k0.g0a.g0b.r0"},
	{"rr-reader-vs-autocommit", "I:Sa.Sb|Sa.Sb|b02.g0a.g0b.g0a.r0"},
	{"rr-reader-vs-gc", "I:Sa.Sa|b02.g0a.g0a.r0|X|Sa"},
	{"begin-vs-gc-vs-overwrite", "I:Sa|b02.g0a.r0|X|Sa"},
	{"two-begins-vs-gc", "I:Sa|b02.g0a.r0|b12.g1a.r1|Sa.X"},
	{"ser-reader-vs-two-commits", "I:Sa.Sb.b11.s1a.s1b.b21.s2a.s2b|c1|c2|b03.g0a.g0b.r0"},
	{"rr-reader-old-tx-gc", "I:Sa.b12.Sa|b02.g0a.g0a.r0|X|r1"},
}

// genPlan says which generated programs (dbconc.Alphabet.Programs) a check explores next to its named ones.
type genPlan struct {
	al   *dbconc.Alphabet
	what string // for the evidence
	// items appends the generated items for the tier
	items func(tier string, add func(ps []string, bound int))
}

// concCheck explores the named programs up to qb / tb deviations, optionally (wa) once more with the
// writer preference of sync.RWMutex modelled at one deviation less, and the generated programs of gp.
func concCheck(id, tier string, quick, thorough time.Duration, progs []prog, qb, tb int, wa bool, gp *genPlan, rule string) int {
	budget := hk.NewBudget(dur(tier, quick, thorough))
	rp := hk.NewReporter(id)
	pool, err := conc.NewPool(0)
	if err != nil {
		return 3
	}
	defer pool.Close()
	b := qb
	var cap int64
	if tier == "thorough" {
		b = tb
		cap = 4_000_000 // executions per program and bound; a capped bound is reported as not completed
	}
	var gen []conc.Item
	if gp != nil {
		gp.items(tier, func(ps []string, bound int) {
			for _, p := range ps {
				gen = append(gen, conc.Item{Name: "db", Params: p, MaxBound: bound, Label: id + "/generated"})
			}
		})
	}
	t0 := time.Now()
	sumG := conc.RunMany(rp, pool, gen, budget, false)
	if verbose() && gp != nil {
		fmt.Fprintf(os.Stderr, "generated programs: %d items, %d executions, %.1fs\n", len(gen), sumG.Execs, time.Since(t0).Seconds())
	}
	var items []conc.Item
	for _, p := range progs {
		items = append(items, conc.Item{Name: "db", Params: p.src, MaxBound: b, MaxExecs: cap, Label: id + "/" + p.name})
	}
	if wa {
		// lock-discipline pass: the same programs with the writer preference of sync.RWMutex modelled (a
		// pending writer blocks new readers), one deviation less — recursive read locking deadlocks only then
		for _, p := range progs {
			items = append(items, conc.Item{Name: "db", Params: p.src + ";wa=1", MaxBound: b - 1, MaxExecs: cap, Label: id + "/" + p.name + "+writer-preference"})
		}
	}
	if id == "C06" {
		for _, p := range c06ReleasePrograms {
			items = append(items, conc.Item{Name: "db", Params: p.src, MaxBound: b, MaxExecs: cap, Label: id + "/" + p.name + "+release-points"})
		}
	}
	sum := conc.RunItems(rp, pool, items, budget, verbose())
	if gp != nil {
		sum.Execs += sumG.Execs
		sum.Steps += sumG.Steps
		sum.Nodes += sumG.Nodes
		sum.Scenarios += sumG.Scenarios
		sum.ViolExecs += sumG.ViolExecs
		sum.AllComplete = sum.AllComplete && sumG.AllComplete
		for k, v := range sumG.Outcomes {
			sum.Outcomes["generated: "+k] += v
		}
		if len(sumG.Samples) > 6 {
			sumG.Samples = sumG.Samples[:6]
		}
		sum.Samples = append(sum.Samples, sumG.Samples...)
		rule += "; plus generated programs: " + gp.what
	}
	cov := sum.Coverage(rule)
	if gp != nil {
		cov["generated_programs"] = len(gen)
	}
	ev := &hk.Evidence{PropertyID: id, Tier: tier, Level: "model_checking", Coverage: cov,
		Assumptions: []string{"interleavings at visible operations (locks, atomics, channel and wait-group operations, timers, KV transactions, file-system calls); race freedom between them is C15",
			"in-memory Badger engine, virtual clock; one pool worker unless stated", "the recorded call/return history of every execution is checked for linearizability against the reference model by exhaustive search"}}
	return finish(rp, ev, budget)
}

// withOpt appends a program option (";k=v") to every program.
func withOpt(ps []string, opt string) []string {
	out := make([]string, len(ps))
	for i, p := range ps {
		out[i] = p + ";" + opt
	}
	return out
}

var genC06 = &genPlan{al: &dbconc.AlphaC06,
	what: "every unordered pair of client threads with one item each from an alphabet of 11 items (autocommit Set/Delete/Get/GetKeys/Create and whole RU/RC transactions) on key a, pairs of pure readers excluded: quick from the single-version state at 1 deviation; thorough from two initial states at 2 deviations, with a GC actor at 1, and two items against one at 1; and every unordered triple of clients over a 5-item alphabet (two reads; Set; Delete; RC set-commit; RC set-get-get-rollback), 34 programs, at 1 deviation quick / 2 thorough; the pairs once more with a scheduling point after every Unlock (release points)",
	items: func(tier string, add func([]string, int)) {
		al := &dbconc.AlphaC06
		if tier == "thorough" {
			for _, init := range al.Inits {
				add(al.Programs(1, 1, init, false), 2)
				add(al.Programs(1, 1, init, true), 1)
			}
			add(al.Programs(2, 1, al.Inits[0], false), 1)
			add(dbconc.Programs3(dbconc.TripleItemsC06, 1, al.Inits[0]), 2)
			add(withOpt(al.Programs(1, 1, al.Inits[0], false), "up=1"), 2)
			return
		}
		// quick: the single-version initial state, no GC actor (the named programs have one)
		add(al.Programs(1, 1, al.Inits[0], false), 1)
		add(dbconc.Programs3(dbconc.TripleItemsC06, 1, al.Inits[0]), 1)
		add(withOpt(al.Programs(1, 1, al.Inits[0], false), "up=1"), 1) // the pairs once more with release points
	}}

var genC07 = &genPlan{al: &dbconc.AlphaC07,
	what: "every unordered pair of committing clients from an alphabet of 8 items (RR/SER transactions with intersecting and disjoint write sets, RC and autocommit writers, a rolled-back writer) on keys a, b: 2 deviations quick; 3 deviations, and a GC actor at 1, thorough; once more with release points at 1 / 2",
	items: func(tier string, add func([]string, int)) {
		al := &dbconc.AlphaC07
		if tier == "thorough" {
			add(al.Programs(1, 1, al.Inits[0], false), 3)
			add(al.Programs(1, 1, al.Inits[0], true), 1)
			add(withOpt(al.Programs(1, 1, al.Inits[0], false), "up=1"), 2)
			add(al.Programs(1, 1, al.Inits[1], false), 2)
			return
		}
		add(al.Programs(1, 1, al.Inits[0], false), 2)
		add(withOpt(al.Programs(1, 1, al.Inits[0], false), "up=1"), 1) // once more with release points
		add(al.Programs(1, 1, al.Inits[1], false), 1)                  // and from a store that has seen transactions end
	}}

var genC08 = &genPlan{al: &dbconc.AlphaC08,
	what: "every pair of a snapshot reader (RR get a/get b/get a; SER keys/get a/get b; RR get a/keys/get a) or writer with a writer (autocommit Set a+Set b, Delete a, RC commit of a and b, RR set a + delete b commit, RC rollback) on keys a, b: 2 deviations quick; 3 deviations, and a GC actor at 1, thorough; once more with release points at 1 / 2",
	items: func(tier string, add func([]string, int)) {
		al := &dbconc.AlphaC08
		if tier == "thorough" {
			add(al.Programs(1, 1, al.Inits[0], false), 3)
			add(al.Programs(1, 1, al.Inits[0], true), 1)
			add(withOpt(al.Programs(1, 1, al.Inits[0], false), "up=1"), 2)
			return
		}
		add(al.Programs(1, 1, al.Inits[0], false), 2)
		add(withOpt(al.Programs(1, 1, al.Inits[0], false), "up=1"), 1) // once more with release points
	}}

func c06(tier string) int {
	return concCheck("C06", tier, 420*time.Second, 60*time.Minute, c06Programs, 2, 3, true, genC06,
		"every schedule with at most N deviations (preemptions, early timers, non-default select arms) of 11 client programs (2-4 clients: autocommit, RU/RC transactions, a GC actor, shared keys) over inline.Open..Close on the real stack, of the same programs with the writer preference of sync.RWMutex modelled at N-1, and of three programs with a scheduling point after every Unlock as well (release points); oracle: call/return history linearizable w.r.t. the sequential model (C01-C03), no deadlock, no panic, no leaked thread")
}

func c07(tier string) int {
	return concCheck("C07", tier, 120*time.Second, 25*time.Minute, c07Programs, 2, 3, false, genC07,
		"every schedule with at most N deviations of programs in which 2-3 snapshot transactions (and an autocommit or RC writer) with intersecting write sets, all begun and written sequentially, commit concurrently; oracle: history linearizable w.r.t. the model, in which the second committer fails with ErrTxSerialization and its writes vanish (final reads by an independent client)")
}

func c08(tier string) int {
	return concCheck("C08", tier, 300*time.Second, 40*time.Minute, c08Programs, 2, 3, false, genC08,
		"every schedule with at most N deviations of programs with a snapshot reader (Begin, repeated reads, GetKeys) against multi-key committers, autocommit writers, other Begins and the GC actor; oracle: history linearizable w.r.t. the model with Begin as the snapshot point (atomic visibility of every commit, stable re-reads, no lost version)")
}
