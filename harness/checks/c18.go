package checks

import (
	"time"

	"github.com/glebziz/fs_db/verifh/enum"
	_ "github.com/glebziz/fs_db/verifh/small"
)

func init() {
	table["C18"] = c18
}

func c18(tier string) int {
	plans := []enum.Plan{{Family: "list-subsets"}, {Family: "list-long"}, {Family: "list-ops", Params: "depth=8"}, {Family: "list-drain", Params: "maxn=140"}}
	if tier == "thorough" {
		plans = []enum.Plan{{Family: "list-subsets"}, {Family: "list-long"}, {Family: "list-ops", Params: "depth=9"}, {Family: "list-drain", Params: "maxn=300"}}
	}
	return enumCheck("C18", tier, 90*time.Second, 25*time.Minute, plans,
		"(a) all 4096 subsets of a 12-element sequence domain as version lists: Latest, LastBefore at all 28 probe points, IterateBeforeSeq at all horizons, and for every horizon the production collect pattern (PopFront inside the iteration) followed by all lookups again, with and without the search array; (b) all operation sequences of the stated depth over push, push-with-gap, pop-front, pop-back and collect at three horizons with all lookups compared after every step; (c) deterministic long lists (1..64, 1000, 4096 elements) probed at and around every element; (d) lists of every length 1..140 (thorough 300) drained by every number of front pops and 0..2 back pops, then grown again, all lookups at all probe points; reference: a plain slice with linear scans",
		[]string{"the 'random long lists' part of the quantifier is replaced by deterministic long lists",
			"a snapshot point / horizon never equals a version number (sequence numbers are drawn from one counter); that degenerate probe is skipped in the 'unchanged after collect' comparison"})
}

func init() { table["C19"] = c19 }

func c19(tier string) int {
	plans := []enum.Plan{{Family: "codec-roundtrip"}, {Family: "codec-longkeys"}, {Family: "codec-decode"}, {Family: "codec-fixture"}}
	return enumCheck("C19", tier, 60*time.Second, 3*time.Minute, plans,
		"encode through repository/file.Repo.Set and decode through Repo.GetAll (recording provider) against an independent codec of the documented layout: keys = all byte strings of length <= 3 over {00,'a',80,ff}, lengths 4..64, 255, 256, 65535, and (fewer id/sequence combinations) every key length n with n or n+40 within one of a power of two from 2^7 to 2^20, and 3 MiB; sequences = 0, 1, every single bit, every ff-prefix, 2^64-1; all 36 pairs of six boundary UUIDs; decoding of all lengths 0..41 with each position class filled from a 3-symbol alphabet, every truncation of a valid record, golden vector (bytes written down in the harness)",
		[]string{"family codec-fixture: a database directory written by the pinned revision (42f3f3c) through the public API on the real Badger engine — /verif/fixtures/pinned_db.tar, with overwritten, deleted, committed and abandoned records — is opened by the current tree on the real engine and must serve exactly its recorded contents"})
}

func init() { table["C20"] = c20 }

func c20(tier string) int {
	plans := []enum.Plan{{Family: "config-lattice", Params: "mode=pairs"}, {Family: "config-values"}}
	if tier == "thorough" {
		plans = append(plans, enum.Plan{Family: "config-lattice", Params: "mode=all"})
	}
	return enumCheck("C20", tier, 60*time.Second, 8*time.Minute, plans,
		"every combination, per setting, of {absent, file only, environment only, both, environment empty with/without file, malformed in environment, malformed in file} over all seven settings (quick: every pair of settings in all 64 state combinations with the others at three base states; thorough: the full product), each a real ParseConfig on a generated YAML file and environment, compared with a reference precedence function; ParseConfig is called twice with the first result mutated in between (defaults must not be aliased); Storage.Valid on the boundary set; value tables: 4-6 boundary and 4-6 malformed representations of each numeric / duration setting in the environment (negative and overflowing counts, missing or unknown units, fractions, hexadecimal, exponent notation) with the other settings absent / in the file / in both",
		nil)
}
