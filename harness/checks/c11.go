package checks

import (
	"time"

	"github.com/glebziz/fs_db/verifh/enum"
	"github.com/glebziz/fs_db/verifh/hk"

	_ "github.com/glebziz/fs_db/verifh/grpch"
	"github.com/glebziz/fs_db/verifh/seq"
)

func init() { table["C11"] = c11 }

var grpcAssumptions = []string{
	"real internal/app server on a loopback port, real external.Open client, real gRPC; in-memory Badger engine; free-running goroutines (no scheduler): sequential client histories have deterministic results",
	"equality with the inline client is established through the common reference model: both clients must return the model's values and error classes on the same histories (C01-C03, C13 run the inline client)",
}

func c11(tier string) int {
	plans := []seq.Plan{
		{Family: "grpc-kv-len", From: 1, To: 2},
		{Family: "grpc-kv", Params: "keys=2", From: 1, To: 3},
		{Family: "grpc-kv-keys", From: 1, To: 2},
		{Family: "grpc-iso", Params: "keys=1,slots=2,gc=0,deflevel=1", From: 1, To: 4},
		// every way of writing inside a transaction (Set, SetReader, Create + Write* + Close)
		{Family: "grpc-iso", Params: "keys=1,slots=2,gc=0,levels=RC.RR,create=1", From: 1, To: 3},
		{Family: "grpc-late", Params: "slots=1,levels=RC.RR,nolatewrites=1", From: 1, To: 4},
	}
	if tier == "thorough" {
		plans = []seq.Plan{
			{Family: "grpc-kv-len", From: 1, To: 3},
			{Family: "grpc-kv", Params: "keys=3", From: 1, To: 4},
			{Family: "grpc-kv-keys", From: 1, To: 3},
			{Family: "grpc-iso", Params: "keys=2,slots=2,gc=0,deflevel=1", From: 1, To: 5},
			{Family: "grpc-iso", Params: "keys=1,slots=2,gc=0,create=1", From: 1, To: 4},
			{Family: "grpc-late", Params: "slots=2,nolatewrites=1", From: 1, To: 4},
			{Family: "grpc-late", Params: "slots=1,levels=RC.RR,nolatewrites=1", From: 5, To: 5},
		}
	}
	// error algebra and server verdicts: enumeration of (sentinel x wrapping shape x call) through a
	// scripted server; reported under the same property
	budgetA := hk.NewBudget(dur(tier, 60*time.Second, 3*time.Minute))
	rpA := hk.NewReporter("C11")
	sumA := enum.RunPlans(rpA, []enum.Plan{{Family: "grpc-errors"}}, budgetA, verbose())
	algebraViolations = rpA.Violations()
	algebraCases = sumA.Cases
	return seqCheckExtra("C11", tier, 180*time.Second, 30*time.Minute, plans,
		"all histories up to the stated depth of the C01 alphabet (all content lengths and Create splits on the last write), of the transactional alphabet (4 levels, 2 slots) and of late operations on finished / never-issued transactions, issued through external.Open against a running server; every result (values; error classes by errors.Is over the exported sentinels) must equal the reference model, which the inline client is held to by C01-C03/C13",
		grpcAssumptions)
}

var (
	algebraViolations int
	algebraCases      int64
)

func seqCheckExtra(id, tier string, quick, thorough time.Duration, plans []seq.Plan, rule string, assumptions []string) int {
	budget := hk.NewBudget(dur(tier, quick, thorough))
	rp := hk.NewReporter(id)
	sum := seq.RunPlans(rp, plans, budget, verbose())
	cov := sum.Coverage(rule + "; plus the error algebra: every exported sentinel and a non-sentinel error x 8 wrapping shapes through server adapter -> status on the wire -> client adapter (unary call), and server verdicts of uploads (at the end / after 0 / 1 chunks) through Set, SetReader and Create against a scripted server")
	cov["error_algebra_cases"] = algebraCases
	cov["traces_validated_against_impl"] = sum.Histories + algebraCases
	ev := &hk.Evidence{PropertyID: id, Tier: tier, Level: "model_checking", Coverage: cov, Assumptions: assumptions}
	rc := finish(rp, ev, budget)
	if algebraViolations > 0 {
		return 1
	}
	return rc
}
