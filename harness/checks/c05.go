package checks

import (
	"time"

	"github.com/glebziz/fs_db/verifh/enum"
	"github.com/glebziz/fs_db/verifh/hk"
	_ "github.com/glebziz/fs_db/verifh/multi"
	"github.com/glebziz/fs_db/verifh/seq"
)

func init() { table["C05"] = c05 }

func enumCheck(id, tier string, quick, thorough time.Duration, plans []enum.Plan, rule string, assumptions []string) int {
	return enumCheckLevel(id, "model_checking", tier, quick, thorough, plans, rule, assumptions)
}

func enumCheckLevel(id, level, tier string, quick, thorough time.Duration, plans []enum.Plan, rule string, assumptions []string) int {
	budget := hk.NewBudget(dur(tier, quick, thorough))
	rp := hk.NewReporter(id)
	sum := enum.RunPlans(rp, plans, budget, verbose())
	ev := &hk.Evidence{PropertyID: id, Tier: tier, Level: level, Coverage: sum.Coverage(rule), Assumptions: assumptions}
	return finish(rp, ev, budget)
}

func c05(tier string) int {
	plans := []enum.Plan{
		{Family: "multi", Params: "lives=2,writes=-.S.SS.D.SD,tx=1,re=1"},
		{Family: "multi", Params: "lives=3,writes=-.S.SS"},
	}
	if tier == "thorough" {
		plans = []enum.Plan{
			{Family: "multi", Params: "lives=2,writes=-.S.SS.SSS.D.SD.SDS,tx=1,re=1"},
			{Family: "multi", Params: "lives=3,writes=-.S.SS.SD,tx=1"},
		}
	}
	splans := []seq.Plan{{Family: "iso-restart", Params: "keys=1,slots=2,levels=RC.RR", From: 1, To: 5}}
	if tier == "thorough" {
		splans = []seq.Plan{{Family: "iso-restart", Params: "keys=1,slots=2", From: 1, To: 6}, {Family: "iso-restart", Params: "keys=2,slots=2,levels=RC.RR", From: 1, To: 5}}
	}
	return seqEnumCheck("C05", tier, 240*time.Second, 15*time.Minute, splans, plans,
		"the full product of: 2-3 process lifetimes x open order of two databases in one process {A, B, AB, BA, A then B after A's writes} x write pattern per database and lifetime x abandoned open transaction x Close/Open inside a lifetime; every database is read (Get, GetKeys) after every open and every write and once more in a final process; per-database map model: committed state survives, open transactions vanish, every later acknowledged write wins immediately and after every later reopen; plus (family iso-restart) every sequential interleaving of transactions and autocommit writes to the stated depth followed by Close, a new process, Open and a full read — twice; and five concurrent programs (two writers; RC commit vs write; delete vs write; snapshot commit of two keys vs writes; write vs collection pass) under the schedule explorer at 2 (3) deviations, each execution followed by Close, a new process and Open: the final reads before and after must agree",
		append([]string{"a process lifetime ends with a clean Close of every database; the new process is emulated by re-initialising all package-level variables (generated VerifResetGlobals)"}, seqAssumptions[1:]...))
}
