// Package checks maps property ids to their checks.
package checks

import (
	"fmt"
	"os"
	"time"

	"github.com/glebziz/fs_db/verifh/conc"
	"github.com/glebziz/fs_db/verifh/enum"
	"github.com/glebziz/fs_db/verifh/hk"
	"github.com/glebziz/fs_db/verifh/seq"
)

type checkFn func(tier string) int

var table = map[string]checkFn{}

func verbose() bool { return os.Getenv("VERIF_VERBOSE") != "" }

// Run executes the check of one property; returns the exit code.
func Run(id, tier string) int {
	if tier != "quick" && tier != "thorough" {
		fmt.Fprintln(os.Stderr, "tier must be quick or thorough")
		return 2
	}
	f := table[id]
	if f == nil {
		fmt.Fprintln(os.Stderr, "no check for", id)
		return 2
	}
	return f(tier)
}

// Replay re-executes a replay file.
func Replay(r *hk.Replay) int {
	switch r.Engine {
	case "conc":
		return conc.ReplayFile(r)
	case "conc-race":
		return conc.ReplayRace(r)
	case "seq":
		return seq.ReplayFile(r)
	case "enum":
		return enum.ReplayFile(r)
	}
	if f := replayers[r.Engine]; f != nil {
		return f(r)
	}
	fmt.Fprintln(os.Stderr, "unknown replay engine", r.Engine)
	return 2
}

var replayers = map[string]func(r *hk.Replay) int{}

func dur(tier string, quick, thorough time.Duration) time.Duration {
	if v := os.Getenv("VERIF_BUDGET_S"); v != "" {
		var s int
		fmt.Sscan(v, &s)
		if s > 0 {
			return time.Duration(s) * time.Second
		}
	}
	if tier == "quick" {
		return quick
	}
	return thorough
}

func finish(rp *hk.Reporter, ev *hk.Evidence, b *hk.Budget) int {
	ev.WallS = b.Elapsed()
	ev.Violations = rp.Violations()
	ev.Seed = hk.Seed()
	if ev.Coverage != nil {
		ev.Coverage["known_finding_hits"] = rp.Known()
	}
	if err := ev.Write(); err != nil {
		fmt.Fprintln(os.Stderr, "verifh: cannot write evidence:", err)
		return 3
	}
	return rp.Finish()
}
