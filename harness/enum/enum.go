// Package enum drives bounded-exhaustive enumerations of indexed case spaces (configuration
// products, fault plans, input sets): every index is executed on the real code, sharded over
// worker processes; violations are confirmed by re-execution and deduplicated by signature.
package enum

import (
	"encoding/json"
	"fmt"
	"os"
	"os/exec"
	"runtime"
	"sort"
	"sync"
	"time"

	"github.com/glebziz/fs_db/verifh/hk"
)

type Mismatch struct {
	What string `json:"what"`
	Sig  string `json:"sig"`
}

// Outcome of one case.
type Outcome struct {
	Mismatch *Mismatch
	Steps    int64    // operations / transitions executed
	States   []uint64 // fingerprints of distinct states or inputs visited
	Checks   int64    // comparisons made
	Infra    string
}

// Family is an indexed case space.
type Family struct {
	Count    func() int64
	Run      func(i int64) *Outcome
	Describe func(i int64) any
}

var families = map[string]func(params string) *Family{}

func Register(name string, mk func(params string) *Family) { families[name] = mk }

func Lookup(name, params string) *Family {
	mk := families[name]
	if mk == nil {
		panic("enum: unknown family " + name)
	}
	return mk(params)
}

type Job struct {
	Family   string `json:"family"`
	Params   string `json:"params"`
	Shard    int    `json:"shard"`
	NShards  int    `json:"nshards"`
	Deadline int64  `json:"deadline"`
}

type Viol struct {
	Index int64  `json:"index"`
	Case  any    `json:"case"`
	What  string `json:"what"`
	Sig   string `json:"sig"`
	Count int64  `json:"count"`
	// Others: further cases with the same signature (a case of a free-running family may fail to
	// reproduce on confirmation; the next one is tried then)
	Others []int64 `json:"others,omitempty"`
}

type Stats struct {
	Cases     int64    `json:"cases"`
	Total     int64    `json:"total"`
	Steps     int64    `json:"steps"`
	Checks    int64    `json:"checks"`
	FPs       []uint64 `json:"fps"`
	Viol      []*Viol  `json:"viol"`
	ViolCount int64    `json:"violcount"`
	Capped    bool     `json:"capped"`
	Infra     string   `json:"infra,omitempty"`
	Samples   []any    `json:"samples,omitempty"`
}

func WorkerMain(arg string) {
	var j Job
	if err := json.Unmarshal([]byte(arg), &j); err != nil {
		fmt.Fprintln(os.Stderr, "enumworker:", err)
		os.Exit(3)
	}
	st := RunJob(&j)
	b, _ := json.Marshal(st)
	os.Stdout.Write(append(b, '\n'))
}

func RunJob(j *Job) *Stats {
	f := Lookup(j.Family, j.Params)
	st := &Stats{Total: f.Count()}
	fps := map[uint64]struct{}{}
	sigs := map[string]*Viol{}
	var dl time.Time
	if j.Deadline > 0 {
		dl = time.Unix(0, j.Deadline)
	}
	for i := int64(j.Shard); i < st.Total; i += int64(j.NShards) {
		if !dl.IsZero() && st.Cases&15 == 0 && time.Now().After(dl) {
			st.Capped = true
			break
		}
		o := f.Run(i)
		for try := 0; try < 4 && o.Infra != ""; try++ { // infrastructure failures are retried, see seq
			time.Sleep(time.Duration(50<<try) * time.Millisecond)
			o = f.Run(i)
		}
		st.Cases++
		st.Steps += o.Steps
		st.Checks += o.Checks
		for _, fp := range o.States {
			fps[fp] = struct{}{}
		}
		if o.Infra != "" {
			st.Infra = fmt.Sprintf("case %d: %s", i, o.Infra)
			break
		}
		if j.Shard == 0 && len(st.Samples) < 3 && f.Describe != nil && (st.Cases == 1 || st.Cases == 50 || st.Cases == 500) {
			st.Samples = append(st.Samples, f.Describe(i))
		}
		if m := o.Mismatch; m != nil {
			st.ViolCount++
			if v, ok := sigs[m.Sig]; ok {
				v.Count++
				if len(v.Others) < 12 {
					v.Others = append(v.Others, i)
				}
			} else if len(sigs) < 30 {
				v := &Viol{Index: i, What: m.What, Sig: m.Sig, Count: 1}
				if f.Describe != nil {
					v.Case = f.Describe(i)
				}
				sigs[m.Sig] = v
			}
		}
	}
	if len(fps) <= 2000000 {
		for fp := range fps {
			st.FPs = append(st.FPs, fp)
		}
	}
	for _, v := range sigs {
		st.Viol = append(st.Viol, v)
	}
	sort.Slice(st.Viol, func(a, b int) bool { return st.Viol[a].Sig < st.Viol[b].Sig })
	return st
}

type Summary struct {
	Cases, Steps, Checks int64
	States               int
	Samples              []any
	AllComplete          bool
	ViolCount            int64
	Families             map[string]int64
}

type Plan struct {
	Family string
	Params string
}

// RunPlans enumerates every plan completely (or until the budget ends).
func RunPlans(rp *hk.Reporter, plans []Plan, budget *hk.Budget, verbose bool) *Summary {
	sum := &Summary{AllComplete: true, Families: map[string]int64{}}
	fpAll := map[uint64]struct{}{}
	n := runtime.NumCPU()
	exe, _ := os.Executable()
	for _, p := range plans {
		label := p.Family
		if p.Params != "" {
			label += "(" + p.Params + ")"
		}
		if budget.Expired() {
			sum.AllComplete = false
			continue
		}
		start := time.Now()
		total := &Stats{}
		var mu sync.Mutex
		var wg sync.WaitGroup
		for s := 0; s < n; s++ {
			wg.Add(1)
			go func(s int) {
				defer wg.Done()
				j := Job{Family: p.Family, Params: p.Params, Shard: s, NShards: n, Deadline: budget.Deadline().UnixNano()}
				b, _ := json.Marshal(j)
				cmd := exec.Command(exe, "enumworker", string(b))
				cmd.Env = append(os.Environ(), "GOMAXPROCS=2")
				cmd.Stderr = os.Stderr
				out, err := cmd.Output()
				var st Stats
				if err == nil {
					err = json.Unmarshal(out, &st)
				}
				mu.Lock()
				defer mu.Unlock()
				if err != nil {
					total.Infra = "enumworker: " + err.Error()
					return
				}
				if st.Infra != "" {
					total.Infra = st.Infra
				}
				total.Capped = total.Capped || st.Capped
				total.Cases += st.Cases
				total.Total = st.Total
				total.Steps += st.Steps
				total.Checks += st.Checks
				total.ViolCount += st.ViolCount
				for _, fp := range st.FPs {
					fpAll[fp] = struct{}{}
				}
				total.Samples = append(total.Samples, st.Samples...)
				for _, v := range st.Viol {
					found := false
					for _, o := range total.Viol {
						if o.Sig == v.Sig {
							o.Count += v.Count
							o.Others = append(o.Others, v.Others...)
							if v.Index < o.Index {
								o.Others = append(o.Others, o.Index)
								o.Index, o.Case, o.What = v.Index, v.Case, v.What
							} else {
								o.Others = append(o.Others, v.Index)
							}
							found = true
						}
					}
					if !found {
						total.Viol = append(total.Viol, v)
					}
				}
			}(s)
		}
		wg.Wait()
		if total.Infra != "" {
			fmt.Fprintf(os.Stderr, "verifh: infrastructure error in %s: %s\n", label, total.Infra)
			os.Exit(3)
		}
		sum.Cases += total.Cases
		sum.Steps += total.Steps
		sum.Checks += total.Checks
		sum.ViolCount += total.ViolCount
		sum.States = len(fpAll)
		sum.Families[label] = total.Cases
		if total.Capped || total.Cases < total.Total {
			sum.AllComplete = false
		}
		if verbose {
			fmt.Printf("  %-50s %9d of %9d cases %11d steps %11d checks %7d states  %5d mismatching  %.1fs\n",
				label, total.Cases, total.Total, total.Steps, total.Checks, len(fpAll), total.ViolCount, time.Since(start).Seconds())
		}
		for _, s := range total.Samples {
			if len(sum.Samples) < 12 {
				sum.Samples = append(sum.Samples, map[string]any{"family": label, "case": s})
			}
		}
		f := Lookup(p.Family, p.Params)
		sort.Slice(total.Viol, func(a, b int) bool { return total.Viol[a].Sig < total.Viol[b].Sig })
		for _, v := range total.Viol {
			sort.Slice(v.Others, func(a, b int) bool { return v.Others[a] < v.Others[b] })
			ok := false
			for _, idx := range append([]int64{v.Index}, v.Others...) {
				ok = true
				what := ""
				for k := 0; k < 3 && ok; k++ {
					o := f.Run(idx)
					if o.Mismatch == nil || o.Mismatch.Sig != v.Sig {
						ok = false
					} else {
						what = o.Mismatch.What
					}
				}
				if ok {
					if idx != v.Index {
						v.Index, v.What = idx, what
						if f.Describe != nil {
							v.Case = f.Describe(idx)
						}
					}
					break
				}
				fmt.Fprintf(os.Stderr, "verifh: case %d of %s did not reproduce (%s)\n", idx, label, v.Sig)
			}
			if !ok {
				fmt.Fprintf(os.Stderr, "verifh: no case of %s with signature %s reproduced three times in a row; not reported\n", label, v.Sig)
				sum.AllComplete = false
				continue
			}
			rp.Report(&hk.Replay{Engine: "enum", Scenario: p.Family, Params: p.Params, Verdict: v.What, Sig: v.Sig,
				Extra: map[string]any{"index": v.Index, "case": v.Case}})
		}
	}
	return sum
}

func (s *Summary) Coverage(rule string) map[string]any {
	st := s.States
	if st == 0 {
		st = int(s.Cases)
	}
	return map[string]any{
		"states":                        st,
		"transitions":                   s.Steps,
		"traces_validated_against_impl": s.Cases,
		"evaluations":                   s.Cases,
		"distinct_nontrivial":           st,
		"comparisons":                   s.Checks,
		"rule":                          rule,
		"samples":                       s.Samples,
		"exhaustive":                    s.AllComplete,
		"cases_per_family":              s.Families,
		"mismatching_cases":             s.ViolCount,
	}
}

// ReplayFile re-runs the case of a replay file.
func ReplayFile(r *hk.Replay) int {
	f := Lookup(r.Scenario, r.Params)
	ex, _ := r.Extra.(map[string]any)
	idx, _ := ex["index"].(float64)
	o := f.Run(int64(idx))
	if f.Describe != nil {
		b, _ := json.MarshalIndent(f.Describe(int64(idx)), "", " ")
		fmt.Println("case:", string(b))
	}
	if o.Mismatch != nil {
		fmt.Println("mismatch:", o.Mismatch.What)
		fmt.Printf("VIOLATION property=%s replay=(replayed)\n", r.Property)
		return 1
	}
	fmt.Println("no mismatch")
	return 0
}
