// Package multi holds the C05 configurations: up to three process lifetimes, two databases opened in
// one process in every order, a few writes per database and lifetime, clean Close/Open in between.
package multi

import (
	"bytes"
	"context"
	"fmt"
	"strings"

	"github.com/glebziz/fs_db"
	imodel "github.com/glebziz/fs_db/internal/model"
	"github.com/glebziz/fs_db/verifh/dbh"
	"github.com/glebziz/fs_db/verifh/enum"
	"github.com/glebziz/fs_db/verifh/model"
	"github.com/glebziz/fs_db/verifh/seq"
	"github.com/glebziz/fs_db/verifrt/vrt"
)

var orders = []string{"A", "B", "AB", "BA", "A.B"} // A.B: B is opened after A's writes

type life struct {
	Order  string `json:"open_order"`
	WA, WB string `json:"writes_A,omitempty"`
	TxA    bool   `json:"abandoned_tx_A,omitempty"`
	ReA    bool   `json:"reopen_A_midlife,omitempty"`
}

type family struct {
	lives   int
	writes  []string
	tx      bool
	re      bool
	perLife []life
}

func newFamily(p string) *family {
	f := &family{lives: 2, writes: []string{"", "S", "SS"}}
	for _, kv := range strings.Split(p, ",") {
		if i := strings.IndexByte(kv, '='); i > 0 {
			k, v := kv[:i], kv[i+1:]
			switch k {
			case "lives":
				fmt.Sscan(v, &f.lives)
			case "writes":
				f.writes = strings.Split(v, ".")
				for i, w := range f.writes {
					if w == "-" {
						f.writes[i] = ""
					}
				}
			case "tx":
				f.tx = v == "1"
			case "re":
				f.re = v == "1"
			}
		}
	}
	for _, o := range orders {
		was := f.writes
		wbs := f.writes
		if !strings.Contains(o, "A") {
			was = []string{""}
		}
		if !strings.Contains(o, "B") {
			wbs = []string{""}
		}
		for _, wa := range was {
			for _, wb := range wbs {
				txs := []bool{false}
				if f.tx && strings.Contains(o, "A") {
					txs = []bool{false, true}
				}
				res := []bool{false}
				if f.re && strings.Contains(o, "A") {
					res = []bool{false, true}
				}
				for _, t := range txs {
					for _, r := range res {
						f.perLife = append(f.perLife, life{Order: o, WA: wa, WB: wb, TxA: t, ReA: r})
					}
				}
			}
		}
	}
	return f
}

func (f *family) count() int64 {
	n := int64(1)
	for i := 0; i < f.lives; i++ {
		n *= int64(len(f.perLife))
	}
	return n
}

func (f *family) decode(i int64) []life {
	out := make([]life, f.lives)
	b := int64(len(f.perLife))
	for k := f.lives - 1; k >= 0; k-- {
		out[k] = f.perLife[i%b]
		i /= b
	}
	return out
}

type world struct {
	in    map[string]*dbh.Inst
	m     map[string]*model.Model
	lens  map[int]int
	step  int
	steps int64
	cks   int64
	fps   map[uint64]struct{}
	lifeN int
}

const key = "k"

func (w *world) observe(db, when string) *enum.Mismatch {
	in := w.in[db]
	if in == nil {
		return nil
	}
	m := w.m[db]
	ctx := context.Background()
	got, err := in.DB.Get(ctx, key)
	w.cks++
	exp, eerr := m.Get(model.Auto, key)
	if g := dbh.Class(err); g != eerr {
		return &enum.Mismatch{What: fmt.Sprintf("%s: Get(%q) on database %s returned %s (%s), expected %s", when, key, db, g, dbh.ShortErr(err), expDesc(exp, eerr)),
			Sig: fmt.Sprintf("multi|Get|exp=%s,obs=%s", expClass(eerr), g)}
	}
	if eerr == model.OK {
		want := dbh.Content(exp.ID, w.lens[exp.ID])
		if !bytes.Equal(got, want) {
			which := "unknown bytes"
			for id, n := range w.lens {
				if bytes.Equal(dbh.Content(id, n), got) {
					which = fmt.Sprintf("the value of write #%d", id)
				}
			}
			return &enum.Mismatch{What: fmt.Sprintf("%s: Get(%q) on database %s returned %s, expected the value of write #%d", when, key, db, which, exp.ID),
				Sig: "multi|Get|exp=value,obs=other-version"}
		}
	}
	keys, err := in.DB.GetKeys(ctx)
	w.cks++
	ek, _ := m.GetKeys(model.Auto)
	if err != nil || strings.Join(keys, ",") != strings.Join(ek, ",") {
		return &enum.Mismatch{What: fmt.Sprintf("%s: GetKeys on database %s returned %q (%s), expected %q", when, db, keys, dbh.ShortErr(err), ek),
			Sig: "multi|GetKeys|exp=keys,obs=wrong-set"}
	}
	return nil
}

func expClass(e model.Err) string {
	if e == model.OK {
		return "value"
	}
	return e.String()
}

func expDesc(v model.Val, e model.Err) string {
	if e == model.OK {
		return fmt.Sprintf("the value of write #%d", v.ID)
	}
	return e.String()
}

func (w *world) observeAll(when string) *enum.Mismatch {
	for _, db := range []string{"A", "B"} {
		if m := w.observe(db, when); m != nil {
			return m
		}
	}
	w.fps[w.m["A"].Fingerprint()*31+w.m["B"].Fingerprint()+uint64(w.lifeN)] = struct{}{}
	return nil
}

func (w *world) open(db string) *enum.Mismatch {
	in, err := dbh.Open(dbh.Spec{Name: db, Roots: 1, MaxDirCount: 100, Workers: 1})
	w.steps++
	if err != nil {
		return &enum.Mismatch{What: fmt.Sprintf("Open(%s) failed: %s", db, dbh.ShortErr(err)), Sig: "multi|Open|exp=nil,obs=error"}
	}
	w.in[db] = in
	return w.observeAll(fmt.Sprintf("life %d, after Open(%s)", w.lifeN, db))
}

func (w *world) close(db string) *enum.Mismatch {
	if w.in[db] == nil {
		return nil
	}
	err := w.in[db].Close()
	w.steps++
	w.in[db] = nil
	w.m[db].Restart()
	if err != nil {
		return &enum.Mismatch{What: fmt.Sprintf("Close(%s) failed: %s", db, dbh.ShortErr(err)), Sig: "multi|Close|exp=nil,obs=error"}
	}
	return nil
}

func (w *world) writes(db, pat string) *enum.Mismatch {
	for _, c := range pat {
		w.step++
		w.steps++
		var err error
		var exp model.Err
		switch c {
		case 'S':
			w.lens[w.step] = 8
			err = w.in[db].DB.Set(context.Background(), key, dbh.Content(w.step, 8))
			exp = w.m[db].Write(model.Auto, key, w.step, false)
		case 'D':
			err = w.in[db].DB.Delete(context.Background(), key)
			exp = w.m[db].Write(model.Auto, key, w.step, true)
		}
		if g := dbh.Class(err); g != exp {
			return &enum.Mismatch{What: fmt.Sprintf("write %c on %s returned %s", c, db, g), Sig: "multi|write|exp=nil,obs=" + g.String()}
		}
		if m := w.observeAll(fmt.Sprintf("life %d, after write #%d (%c) on %s", w.lifeN, w.step, c, db)); m != nil {
			return m
		}
	}
	return nil
}

func (w *world) abandonedTx(db string) *enum.Mismatch {
	tx, err := w.in[db].DB.Begin(context.Background(), imodel.TxIsoLevel(model.RC))
	if err != nil {
		return &enum.Mismatch{What: "Begin failed: " + dbh.ShortErr(err), Sig: "multi|Begin|exp=nil,obs=error"}
	}
	w.step++
	w.steps += 2
	w.lens[w.step] = 8
	w.m[db].Begin(0, model.RC)
	w.m[db].Write(0, key, w.step, false)
	if err := tx.Set(context.Background(), key, dbh.Content(w.step, 8)); err != nil {
		return &enum.Mismatch{What: "Set in transaction failed: " + dbh.ShortErr(err), Sig: "multi|TxSet|exp=nil,obs=error"}
	}
	return w.observeAll(fmt.Sprintf("life %d, after an uncommitted write #%d on %s", w.lifeN, w.step, db))
}

func (f *family) run(i int64) *enum.Outcome {
	lives := f.decode(i)
	o := &enum.Outcome{}
	verdict := seq.RunManaged(func() {
		vrt.SetBranching(false)
		dbh.FreshWorld()
		w := &world{in: map[string]*dbh.Inst{}, m: map[string]*model.Model{"A": model.New(1), "B": model.New(1)}, lens: map[int]int{}, fps: map[uint64]struct{}{}}
		defer func() {
			for _, db := range []string{"A", "B"} {
				if w.in[db] != nil {
					w.in[db].Close()
				}
			}
			o.Steps, o.Checks = w.steps, w.cks
			for fp := range w.fps {
				o.States = append(o.States, fp)
			}
		}()
		try := func(m *enum.Mismatch) bool {
			if m != nil {
				o.Mismatch = m
				return false
			}
			return true
		}
		for n, l := range lives {
			w.lifeN = n + 1
			switch l.Order {
			case "A":
				if !try(w.open("A")) || !try(w.writes("A", l.WA)) {
					return
				}
			case "B":
				if !try(w.open("B")) || !try(w.writes("B", l.WB)) {
					return
				}
			case "AB":
				if !try(w.open("A")) || !try(w.open("B")) || !try(w.writes("A", l.WA)) || !try(w.writes("B", l.WB)) {
					return
				}
			case "BA":
				if !try(w.open("B")) || !try(w.open("A")) || !try(w.writes("A", l.WA)) || !try(w.writes("B", l.WB)) {
					return
				}
			case "A.B":
				if !try(w.open("A")) || !try(w.writes("A", l.WA)) || !try(w.open("B")) || !try(w.writes("B", l.WB)) {
					return
				}
			}
			if l.ReA && w.in["A"] != nil {
				if !try(w.close("A")) || !try(w.open("A")) {
					return
				}
			}
			if l.TxA && w.in["A"] != nil {
				if !try(w.abandonedTx("A")) {
					return
				}
			}
			vrt.Quiesce()
			if !try(w.close("A")) || !try(w.close("B")) {
				return
			}
			dbh.NewProcess()
		}
		// a final process opens both and reads
		w.lifeN = len(lives) + 1
		if !try(w.open("A")) || !try(w.open("B")) {
			return
		}
	})
	if verdict != "" && o.Mismatch == nil {
		o.Mismatch = &enum.Mismatch{What: verdict, Sig: "multi|scheduler|" + strings.SplitN(verdict, ":", 2)[0]}
	}
	return o
}

var _ fs_db.DB

func init() {
	enum.Register("multi", func(p string) *enum.Family {
		f := newFamily(p)
		return &enum.Family{Count: f.count, Run: f.run, Describe: func(i int64) any { return f.decode(i) }}
	})
}
