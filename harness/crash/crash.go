// Package crash is the C04 crash-point enumerator: a workload runs once on the real stack with every
// persistent mutation (file create/write/remove, directory creation, KV commit) logged; then, for
// every prefix of that log (plus torn variants of file writes), the persistent state is materialised,
// a new process recovers from it, and what it serves is compared with the model of the acknowledged
// prefix (± the one operation in flight, atomically); recovery is repeated (idempotence) and is itself
// crashed at each of its own mutation points.
package crash

import (
	"bytes"
	"context"
	"fmt"
	"sort"
	"strings"

	"github.com/glebziz/fs_db/verifh/dbh"
	"github.com/glebziz/fs_db/verifh/enum"
	_ "github.com/glebziz/fs_db/verifh/fam"
	"github.com/glebziz/fs_db/verifh/model"
	"github.com/glebziz/fs_db/verifh/seq"
	"github.com/glebziz/fs_db/verifrt/badger"
	"github.com/glebziz/fs_db/verifrt/vrt"
)

const (
	origVol = "/__crash__/orig"
	recVol  = "/__crash__/recovered"
)

type mark struct{ start, ack int }

type obs struct {
	vals map[string]int // key -> value id, -1 not found
	keys []string
	err  string
}

func (o obs) String() string {
	var p []string
	ks := make([]string, 0, len(o.vals))
	for k := range o.vals {
		ks = append(ks, k)
	}
	sort.Strings(ks)
	for _, k := range ks {
		if v := o.vals[k]; v >= 0 {
			p = append(p, fmt.Sprintf("%s=#%d", k, v))
		} else {
			p = append(p, k+"=absent")
		}
	}
	return strings.Join(p, " ") + " keys=" + strings.Join(o.keys, ",")
}

func expected(m *model.Model, keys []string) obs {
	o := obs{vals: map[string]int{}}
	for _, k := range keys {
		if v, e := m.Get(model.Auto, k); e == model.OK {
			o.vals[k] = v.ID
		} else {
			o.vals[k] = -1
		}
	}
	o.keys, _ = m.GetKeys(model.Auto)
	return o
}

func observe(in *dbh.Inst, keys []string, lens map[int]int) obs {
	o := obs{vals: map[string]int{}}
	ctx := context.Background()
	for _, k := range keys {
		b, err := in.DB.Get(ctx, k)
		switch {
		case err == nil:
			id := -3
			for vid, n := range lens {
				if n == len(b) && bytes.Equal(dbh.Content(vid, n), b) {
					id = vid
				}
			}
			if id == -3 {
				o.err = fmt.Sprintf("Get(%q) returned %d bytes that are no complete stored content", k, len(b))
			}
			o.vals[k] = id
		case dbh.Class(err) == model.ErrNotFound:
			o.vals[k] = -1
		default:
			o.err = fmt.Sprintf("Get(%q) failed: %s", k, dbh.ShortErr(err))
			o.vals[k] = -2
		}
	}
	ks, err := in.DB.GetKeys(ctx)
	if err != nil {
		o.err = "GetKeys failed: " + dbh.ShortErr(err)
	}
	o.keys = ks
	// every listed key must be readable
	for _, k := range ks {
		if v, ok := o.vals[k]; ok && v < 0 && o.err == "" {
			o.err = fmt.Sprintf("GetKeys lists %q but Get fails", k)
		}
	}
	return o
}

func same(a, b obs) bool {
	if len(a.vals) != len(b.vals) || strings.Join(a.keys, "\x00") != strings.Join(b.keys, "\x00") {
		return false
	}
	for k, v := range a.vals {
		if b.vals[k] != v {
			return false
		}
	}
	return true
}

// image materialises the persistent state: file mutations of log[:k] (plus the first torn bytes of a
// write at k) and the KV volume as of its last commit among log[:k].
func image(spec dbh.Spec, log []vrt.Mutation, k int, torn int, baseTs uint64) error {
	if err := vrt.WipeDir(dbh.Base()); err != nil {
		return err
	}
	if err := vrt.ApplyFS(log, k, torn); err != nil {
		return err
	}
	ts := baseTs
	for i := 0; i < k && i < len(log); i++ {
		if log[i].Kind == vrt.MutKV {
			ts = uint64(log[i].Off)
		}
	}
	badger.CloneVolumeAt(origVol, ts, spec.Config().Storage.DbPath)
	return nil
}

type analysis struct {
	steps, checks int64
	points        int64
}

func mm(what, sig string) *enum.Mismatch { return &enum.Mismatch{What: what, Sig: "crash|" + sig} }

// recover opens a new process on the current image, reads, optionally records its own mutations.
func recoverAndObserve(spec dbh.Spec, keys []string, lens map[int]int, record bool) (o obs, log []vrt.Mutation, m *enum.Mismatch) {
	dbh.NewProcess()
	var rec *vrt.Recorder
	if record {
		rec = &vrt.Recorder{}
		vrt.Rec = rec
	}
	in, err := dbh.Open(spec)
	if err != nil {
		vrt.Rec = nil
		return o, nil, mm("recovery failed: Open returned "+dbh.ShortErr(err), "recovery-open-failed")
	}
	o = observe(in, keys, lens)
	vrt.Quiesce() // let recovery's own clean-up finish
	o2 := observe(in, keys, lens)
	vrt.Rec = nil
	if rec != nil {
		log = rec.Log
	}
	if cerr := in.Close(); cerr != nil {
		return o, log, mm("Close after recovery failed: "+dbh.ShortErr(cerr), "recovery-close-failed")
	}
	vrt.Quiesce()
	if o.err == "" && o2.err != "" {
		o.err = o2.err
	}
	if o.err == "" && !same(o, o2) {
		return o, log, mm(fmt.Sprintf("recovered state changed while recovery's clean-up ran: %s then %s", o, o2), "state-changes-during-cleanup")
	}
	return o, log, nil
}

// analyse runs the workload and checks every crash point.
func analyse(f *seq.Family, hist []seq.Op, eager bool, deep bool) (*enum.Mismatch, *analysis, string) {
	an := &analysis{}
	var res *enum.Mismatch
	var infra string
	verdict := seq.RunManaged(func() {
		opt := f.Opt
		opt.Eager = eager
		rec := &vrt.Recorder{}
		var marks []mark
		var models []*model.Model
		var cur mark
		opt.OnStart = func(r *seq.Runner, op seq.Op) {
			if len(models) == 0 {
				models = append(models, r.M.Clone())
			}
			cur = mark{start: len(rec.Log)}
		}
		opt.OnAck = func(r *seq.Runner, op seq.Op) {
			cur.ack = len(rec.Log)
			marks = append(marks, cur)
			models = append(models, r.M.Clone())
		}
		var lens map[int]int
		opt.Epilogue = func(r *seq.Runner) *seq.Mismatch {
			vrt.Quiesce()
			lens = r.Lens
			return nil
		}
		// the recorder must be active from the very first mutation (directory creation at Open)
		vrt.Rec = rec
		r := seq.Run(opt, hist)
		vrt.Rec = nil
		an.steps += int64(r.Steps)
		if r.Infra != "" {
			infra = r.Infra
			return
		}
		if r.Mismatch != nil {
			// functional mismatch of the forward run: other properties' business; nothing to crash
			return
		}
		if len(models) == 0 {
			return
		}
		log := rec.Log
		spec := opt.Spec
		badger.AliasVolume(spec.Config().Storage.DbPath, origVol)
		keys := opt.ObsKeys
		type point struct{ k, torn int }
		var points []point
		for k := 0; k <= len(log); k++ {
			points = append(points, point{k, -1})
			if k < len(log) && log[k].Kind == vrt.MutWrite && len(log[k].Data) > 1 {
				points = append(points, point{k, len(log[k].Data) / 2})
			}
		}
		for _, pt := range points {
			an.points++
			// which operations are acknowledged, which one is in flight at this point
			acked, inflight := 0, -1
			for i, mk := range marks {
				if mk.ack <= pt.k {
					acked = i + 1
				} else if mk.start <= pt.k {
					inflight = i
					break
				} else {
					break
				}
			}
			cands := []obs{}
			c0 := models[acked].Clone()
			c0.Restart()
			cands = append(cands, expected(c0, keys))
			if inflight >= 0 {
				c1 := models[inflight+1].Clone()
				c1.Restart()
				cands = append(cands, expected(c1, keys))
			}
			where := func() string {
				w := fmt.Sprintf("crash after %d of %d persistent mutations", pt.k, len(log))
				if pt.k > 0 {
					w += " (last: " + log[pt.k-1].String() + ")"
				}
				if pt.torn >= 0 {
					w += fmt.Sprintf(" with %d bytes of the next write on disk", pt.torn)
				}
				w += fmt.Sprintf("; %d operations acknowledged", acked)
				if inflight >= 0 {
					w += ", in flight: " + hist[inflight].String()
				}
				return w
			}
			if err := image(spec, log, pt.k, pt.torn, 0); err != nil {
				infra = "materialise: " + err.Error()
				return
			}
			o, rlog, m := recoverAndObserve(spec, keys, lens, deep)
			if deep {
				badger.AliasVolume(spec.Config().Storage.DbPath, recVol)
			}
			an.checks++
			if m != nil {
				m.What = where() + ": " + m.What
				res = m
				return
			}
			if o.err != "" {
				res = mm(where()+": "+o.err, "unreadable-after-recovery")
				return
			}
			match := -1
			for i, c := range cands {
				if same(o, c) {
					match = i
				}
			}
			if match < 0 {
				var cs []string
				for _, c := range cands {
					cs = append(cs, c.String())
				}
				kind := "acknowledged-write-lost-or-uncommitted-visible"
				res = mm(fmt.Sprintf("%s: recovered state {%s} is none of the allowed {%s}", where(), o, strings.Join(cs, "} or {")), kind)
				return
			}
			// reopening a second time gives the same state
			o2, _, m := recoverAndObserve(spec, keys, lens, false)
			an.checks++
			if m != nil {
				res = m
				return
			}
			if o2.err != "" || !same(o, o2) {
				res = mm(fmt.Sprintf("%s: second recovery gives {%s} %s, first gave {%s}", where(), o2, o2.err, o), "recovery-not-idempotent")
				return
			}
			// crash inside the recovery itself, at each of its mutation points (file-system and KV)
			if deep && len(rlog) > 0 {
				for j := 0; j < len(rlog); j++ {
					an.points++
					if err := vrt.WipeDir(dbh.Base()); err != nil {
						infra = err.Error()
						return
					}
					if err := vrt.ApplyFS(log, pt.k, pt.torn); err != nil {
						infra = "materialise nested: " + err.Error()
						return
					}
					if err := vrt.ApplyFS(rlog, j, -1); err != nil {
						infra = "materialise nested: " + err.Error()
						return
					}
					rts := uint64(1) // the recovered volume starts as a clone at version 1
					for _, mu := range rlog[:j] {
						if mu.Kind == vrt.MutKV {
							rts = uint64(mu.Off)
						}
					}
					badger.CloneVolumeAt(recVol, rts, spec.Config().Storage.DbPath)
					o3, _, m := recoverAndObserve(spec, keys, lens, false)
					an.checks++
					if m != nil {
						res = m
						return
					}
					if o3.err != "" || !same(o, o3) {
						last := "none"
						if j > 0 {
							last = rlog[j-1].String()
						}
						res = mm(fmt.Sprintf("%s; the recovery itself crashed after %d of its %d mutations (last: %s): the next recovery gives {%s} %s instead of {%s}",
							where(), j, len(rlog), last, o3, o3.err, o), "crash-in-recovery-changes-state")
						return
					}
				}
			}
		}
	})
	if verdict != "" && res == nil && infra == "" {
		res = mm(verdict, "scheduler-"+strings.SplitN(verdict, ":", 2)[0])
	}
	return res, an, infra
}

func init() {
	enum.Register("crash", func(p string) *enum.Family {
		// params: "<seq family>;<family params>;depth=N;deep=0|1"
		parts := strings.Split(p, ";")
		famName, famParams := parts[0], parts[1]
		depth, deep := 3, false
		for _, kv := range parts[2:] {
			switch {
			case strings.HasPrefix(kv, "depth="):
				fmt.Sscan(kv[6:], &depth)
			case kv == "deep=1":
				deep = true
			}
		}
		f := seq.Lookup(famName, famParams)
		var hists [][]seq.Op
		seq.Walk(f, depth, 0, 1, func(h []seq.Op) bool {
			hists = append(hists, append([]seq.Op(nil), h...))
			return true
		})
		return &enum.Family{
			Count: func() int64 { return int64(len(hists)) * 2 },
			Describe: func(i int64) any {
				return map[string]any{"workload": seq.HistoryString(hists[i/2]), "background_settled_after_every_step": i%2 == 0}
			},
			Run: func(i int64) *enum.Outcome {
				m, an, infra := analyse(f, hists[i/2], i%2 == 0, deep)
				o := &enum.Outcome{Mismatch: m, Infra: infra, Steps: an.steps + an.points, Checks: an.checks}
				o.States = []uint64{uint64(i)<<20 | uint64(an.points)}
				return o
			},
		}
	})
}
