package crash

import (
	"encoding/json"
	"fmt"
	"os"
	"os/exec"
	"path/filepath"
	"strconv"
	"strings"
	"syscall"

	"github.com/glebziz/fs_db/verifh/dbh"
	"github.com/glebziz/fs_db/verifh/enum"
	"github.com/glebziz/fs_db/verifh/model"
	"github.com/glebziz/fs_db/verifh/seq"
	"github.com/glebziz/fs_db/verifrt/vrt"
)

// Real-process tier of C04: a child process runs a workload on the real Badger engine and real files
// and is killed by SIGKILL immediately before its n-th counted persistent mutation (file-system call
// or Badger commit), for every n; the parent then recovers with the real engine and compares.

type childJob struct {
	Ops    []seq.Op `json:"ops"`
	KillAt int64    `json:"kill_at"`
}

var sigSpec = dbh.Spec{Roots: 1, MaxDirCount: 100, Workers: 1}

// ChildMain is `verifh crashchild <json>`; VERIF_BASE_DIR names the shared directory.
func ChildMain(arg string) {
	var j childJob
	if err := json.Unmarshal([]byte(arg), &j); err != nil {
		fmt.Fprintln(os.Stderr, "crashchild:", err)
		os.Exit(3)
	}
	prog, err := os.OpenFile(filepath.Join(filepath.Dir(dbh.Base()), "progress"), os.O_CREATE|os.O_WRONLY|os.O_TRUNC, 0o644)
	if err != nil {
		fmt.Fprintln(os.Stderr, "crashchild:", err)
		os.Exit(3)
	}
	opt := seq.Options{Slots: 2, ObsKeys: []string{"a", "b"}, Spec: sigSpec, Free: true, NoObs: true, OpenFn: dbh.OpenReal}
	n := 0
	opt.OnAck = func(r *seq.Runner, op seq.Op) {
		n++
		fmt.Fprintf(prog, "acked %d\n", n)
	}
	vrt.MutCount.Store(0)
	vrt.KillAt.Store(j.KillAt)
	res := seq.Run(opt, j.Ops)
	if res.Infra != "" || res.Mismatch != nil {
		fmt.Fprintf(prog, "problem %s %v\n", res.Infra, res.Mismatch)
		os.Exit(4)
	}
	fmt.Fprintf(prog, "done %d\n", vrt.MutCount.Load())
	prog.Close()
}

func readProgress(dir string) (acked int, done bool, total int64, problem string) {
	b, _ := os.ReadFile(filepath.Join(dir, "progress"))
	for _, ln := range strings.Split(string(b), "\n") {
		f := strings.Fields(ln)
		if len(f) < 2 {
			continue
		}
		switch f[0] {
		case "acked":
			acked, _ = strconv.Atoi(f[1])
		case "done":
			done = true
			total, _ = strconv.ParseInt(f[1], 10, 64)
		case "problem":
			problem = ln
		}
	}
	return
}

var sigWorkloads = [][]seq.Op{
	// overwrite, delete, re-create
	{{Kind: seq.Set, Actor: model.Auto, Key: "a"}, {Kind: seq.Set, Actor: model.Auto, Key: "a"}, {Kind: seq.Delete, Actor: model.Auto, Key: "a"}, {Kind: seq.Set, Actor: model.Auto, Key: "a"}},
	// multi-key commit over existing values
	{{Kind: seq.Set, Actor: model.Auto, Key: "a"}, {Kind: seq.Begin, Actor: 0, Level: model.RC}, {Kind: seq.Set, Actor: 0, Key: "a"}, {Kind: seq.Set, Actor: 0, Key: "b"}, {Kind: seq.Set, Actor: 0, Key: "a"}, {Kind: seq.Commit, Actor: 0}},
	// failed snapshot commit, then rollback of another
	{{Kind: seq.Begin, Actor: 0, Level: model.RR}, {Kind: seq.Set, Actor: 0, Key: "a"}, {Kind: seq.Set, Actor: model.Auto, Key: "a"}, {Kind: seq.Commit, Actor: 0}, {Kind: seq.Begin, Actor: 1, Level: model.RC}, {Kind: seq.Set, Actor: 1, Key: "b"}, {Kind: seq.Rollback, Actor: 1}},
	// GC between overwrites, with an old snapshot open
	{{Kind: seq.Set, Actor: model.Auto, Key: "a"}, {Kind: seq.Begin, Actor: 0, Level: model.RR}, {Kind: seq.Set, Actor: model.Auto, Key: "a"}, {Kind: seq.GC}, {Kind: seq.Rollback, Actor: 0}, {Kind: seq.Set, Actor: model.Auto, Key: "a"}, {Kind: seq.GC}},
	// clean reopen in the middle, abandoned transaction
	{{Kind: seq.Set, Actor: model.Auto, Key: "a"}, {Kind: seq.Begin, Actor: 0, Level: model.RC}, {Kind: seq.Set, Actor: 0, Key: "b"}, {Kind: seq.Restart}, {Kind: seq.Set, Actor: model.Auto, Key: "b"}, {Kind: seq.Delete, Actor: model.Auto, Key: "a"}},
	// delete inside a committed transaction, overwrite after
	{{Kind: seq.Set, Actor: model.Auto, Key: "a"}, {Kind: seq.Set, Actor: model.Auto, Key: "b"}, {Kind: seq.Begin, Actor: 0, Level: model.SER}, {Kind: seq.Delete, Actor: 0, Key: "a"}, {Kind: seq.Set, Actor: 0, Key: "b"}, {Kind: seq.Commit, Actor: 0}, {Kind: seq.Set, Actor: model.Auto, Key: "a"}},
}

func runChild(dir string, ops []seq.Op, killAt int64) (killed bool, err error) {
	exe, _ := os.Executable()
	b, _ := json.Marshal(childJob{Ops: ops, KillAt: killAt})
	cmd := exec.Command(exe, "crashchild", string(b))
	cmd.Env = append(os.Environ(), "VERIF_BASE_DIR="+filepath.Join(dir, "data"), "GOMAXPROCS=2")
	cmd.Stderr = os.Stderr
	werr := cmd.Run()
	if werr == nil {
		return false, nil
	}
	if ee, ok := werr.(*exec.ExitError); ok {
		if ws, ok := ee.Sys().(syscall.WaitStatus); ok && ws.Signaled() && ws.Signal() == syscall.SIGKILL {
			return true, nil
		}
	}
	return false, werr
}

func init() {
	enum.Register("sigkill", func(p string) *enum.Family {
		// the case space is (workload, kill point); kill points are discovered by a dry run per workload
		type cs struct {
			w    int
			kill int64
		}
		var cases []cs
		limitW := len(sigWorkloads)
		if p == "quick" {
			limitW = 2
		}
		// kill points 1..maxKill for every workload: beyond the workload's own number of mutations the
		// child simply finishes (the final state is then compared with the model of the whole workload);
		// a fixed range keeps the case space identical in every worker process, whatever the timing of
		// background work in the free-running child.
		const maxKill = 48
		totals := make([]int64, len(sigWorkloads))
		for w := 0; w < limitW; w++ {
			totals[w] = maxKill
			for k := int64(1); k <= maxKill; k++ {
				cases = append(cases, cs{w, k})
			}
		}
		return &enum.Family{
			Count: func() int64 { return int64(len(cases)) },
			Describe: func(i int64) any {
				return map[string]any{"workload": seq.HistoryString(sigWorkloads[cases[i].w]), "sigkill_before_mutation": cases[i].kill, "of": totals[cases[i].w]}
			},
			Run: func(i int64) *enum.Outcome {
				c := cases[i]
				o := &enum.Outcome{Steps: 1, States: []uint64{uint64(c.w)<<32 | uint64(c.kill)}}
				ops := sigWorkloads[c.w]
				dir, err := os.MkdirTemp(dbh.Base(), "sigkill-")
				if err != nil {
					o.Infra = err.Error()
					return o
				}
				defer os.RemoveAll(dir)
				killed, err := runChild(dir, ops, c.kill)
				if err != nil {
					o.Infra = "child: " + err.Error()
					return o
				}
				acked, done, _, problem := readProgress(dir)
				if problem != "" {
					o.Infra = "child reported: " + problem
					return o
				}
				if !killed && !done {
					o.Infra = "child neither killed nor done"
					return o
				}
				// models after the acknowledged prefix and after one more operation
				m := model.New(2)
				lens := map[int]int{}
				for k := 0; k < len(ops); k++ {
					lens[k+1] = seq.DefaultLen
				}
				var cands []obs
				keys := []string{"a", "b"}
				for k := 0; k <= len(ops); k++ {
					if k == acked || (k == acked+1 && killed) {
						c := m.Clone()
						c.Restart()
						cands = append(cands, expected(c, keys))
					}
					if k < len(ops) {
						seq.ModelStep(m, ops[k], k+1)
					}
				}
				// recover in this process on the child's directories, real engine
				os.Setenv("VERIF_BASE_DIR", "")
				restore := dbh.SwapBase(filepath.Join(dir, "data"))
				defer restore()
				dbh.NewProcess()
				in, err := dbh.OpenReal(sigSpec)
				if err != nil {
					o.Mismatch = mm(fmt.Sprintf("SIGKILL before mutation %d of %v: recovery Open failed: %s", c.kill, seq.HistoryString(ops), dbh.ShortErr(err)), "recovery-open-failed")
					return o
				}
				ob := observe(in, keys, lens)
				in.Close()
				o.Checks++
				if ob.err != "" {
					o.Mismatch = mm(fmt.Sprintf("SIGKILL before mutation %d of %v (%d operations acknowledged): %s", c.kill, seq.HistoryString(ops), acked, ob.err), "unreadable-after-recovery")
					return o
				}
				for _, cd := range cands {
					if same(ob, cd) {
						return o
					}
				}
				var cs []string
				for _, cd := range cands {
					cs = append(cs, cd.String())
				}
				o.Mismatch = mm(fmt.Sprintf("SIGKILL before mutation %d of %v (%d operations acknowledged): recovered {%s}, allowed {%s}", c.kill, seq.HistoryString(ops), acked, ob, strings.Join(cs, "} or {")),
					"acknowledged-write-lost-or-uncommitted-visible")
				return o
			},
		}
	})
}
