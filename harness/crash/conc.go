package crash

import (
	"bytes"
	"context"
	"fmt"
	"strings"
	"time"

	"github.com/glebziz/fs_db"
	"github.com/glebziz/fs_db/verifh/conc"
	"github.com/glebziz/fs_db/verifh/dbh"
	"github.com/glebziz/fs_db/verifh/model"
	"github.com/glebziz/fs_db/verifrt/badger"
	"github.com/glebziz/fs_db/verifrt/sync"
	"github.com/glebziz/fs_db/verifrt/vrt"
)

// crash-conc: crash points of *concurrent* executions. A writer overwrites (or deletes) a key that holds
// an acknowledged value while a collection pass runs; every schedule within the deviation bound is run
// with the persistent mutations logged, and after each one every prefix of its log is materialised,
// recovered by a new process and read. The key must hold its acknowledged value or the value of the
// write in flight — whole — at every crash point of every schedule; once the write is acknowledged,
// only that.
//
// params: "op=S" (overwrite) | "op=D" (delete) | "op=T" (RC transaction: set, commit) | "op=C" (Create, two
// Write calls, Close: the asynchronous pipeline) | "op=R" (RepeatableRead transaction: set, commit — with
// vs=S the commit may be refused with ErrTxSerialization: from the moment it has returned that error no
// crash may bring its value back)
func init() {
	conc.Register("crash-conc", func(p string) *conc.Scenario {
		op, vs := "S", "X"
		for _, kv := range strings.Split(p, ",") {
			switch {
			case strings.HasPrefix(kv, "op="):
				op = kv[3:]
			case strings.HasPrefix(kv, "vs="):
				vs = kv[3:] // the other thread: "X" a collection pass (default), "S" an autocommit Set of the same key
			}
		}
		return &conc.Scenario{
			Options: func(o *vrt.Options) { o.LongTimer = dbh.GCPeriod / 2 },
			Body: func() (string, string) {
				vrt.SetBranching(false)
				dbh.FreshWorld()
				rec := &vrt.Recorder{}
				vrt.Rec = rec
				defer func() { vrt.Rec = nil }()
				spec := dbh.Spec{Roots: 1, MaxDirCount: 100, Workers: 1}
				in, err := dbh.Open(spec)
				if err != nil {
					return "infra: open: " + err.Error(), ""
				}
				ctx := context.Background()
				lens := map[int]int{1: 8, 2: 8, 3: 8}
				ack3 := -1
				if err := in.DB.Set(ctx, "a", dbh.Content(1, 8)); err != nil {
					in.Close()
					return "setup Set failed: " + dbh.ShortErr(err), ""
				}
				vrt.Quiesce()
				ack1 := len(rec.Log)
				ack2 := -1
				var werr error
				refused := false
				vrt.SetBranching(true)
				var wg sync.WaitGroup
				wg.Add(2)
				vrt.GoNamed("writer", func() {
					defer wg.Done()
					switch op {
					case "D":
						werr = in.DB.Delete(ctx, "a")
					case "T", "R":
						lv := fs_db.IsoLevelReadCommitted
						if op == "R" {
							lv = fs_db.IsoLevelRepeatableRead
						}
						tx, err := in.DB.Begin(ctx, lv)
						if err == nil {
							err = tx.Set(ctx, "a", dbh.Content(2, 8))
						}
						if err == nil {
							err = tx.Commit(ctx)
							if op == "R" && err != nil && dbh.Class(err) == model.ErrTxSerialization {
								// first committer wins: the other writer's version was published first
								refused, err = true, nil
							}
						}
						werr = err
					case "C":
						f, err := in.DB.Create(ctx, "a")
						if err == nil {
							c := dbh.Content(2, 8)
							_, err = f.Write(c[:3])
							if err == nil {
								_, err = f.Write(c[3:])
							}
							if cerr := f.Close(); err == nil {
								err = cerr
							}
						}
						werr = err
					default:
						werr = in.DB.Set(ctx, "a", dbh.Content(2, 8))
					}
					ack2 = len(rec.Log)
				})
				vrt.GoNamed("collector", func() {
					defer wg.Done()
					if vs == "S" {
						if err := in.DB.Set(ctx, "a", dbh.Content(3, 8)); err != nil && werr == nil {
							werr = err
						}
						ack3 = len(rec.Log)
						return
					}
					vrt.Advance(dbh.GCPeriod)
				})
				wg.Wait()
				vrt.SetBranching(false)
				// what the clients are told the key holds once both calls have returned
				finalVal := -2
				ackBoth := len(rec.Log)
				if vs == "S" {
					if b, err := in.DB.Get(ctx, "a"); err == nil {
						for id := 1; id <= 3; id++ {
							if bytes.Equal(b, dbh.Content(id, 8)) {
								finalVal = id
							}
						}
					} else if dbh.Class(err) == model.ErrNotFound {
						finalVal = -1
					}
				}
				vrt.Quiesce()
				cerr := in.Close()
				vrt.Quiesce()
				vrt.Rec = nil
				if werr != nil {
					return "the write failed: " + dbh.ShortErr(werr), ""
				}
				if cerr != nil {
					return "Close failed: " + dbh.ShortErr(cerr), ""
				}
				log := rec.Log
				badger.AliasVolume(spec.Config().Storage.DbPath, origVol)
				newVal := 2
				if op == "D" {
					newVal = -1
				}
				outcomes := map[int]bool{}
				for k := ack1; k <= len(log); k++ {
					if err := image(spec, log, k, -1, 0); err != nil {
						return "infra: materialise: " + err.Error(), ""
					}
					o, _, m := recoverAndObserve(spec, []string{"a"}, lens, false)
					where := fmt.Sprintf("crash after %d of %d persistent mutations of this schedule", k, len(log))
					if k > 0 {
						where += " (last: " + log[k-1].String() + ")"
					}
					if m != nil {
						return "crash-" + m.Sig + ": " + where + ": " + m.What, ""
					}
					if o.err != "" {
						return "crash-unreadable-after-recovery: " + where + ": " + o.err, ""
					}
					v := o.vals["a"]
					outcomes[v] = true
					ok := v == newVal || (v == 1 && k < ack2)
					if vs == "S" {
						// two writers: before both are acknowledged any of the three values; afterwards the
						// value a reader was given at that moment
						ok = (k < ackBoth && (v == 1 || v == 3 || v == newVal)) || (k >= ackBoth && v == finalVal)
						_ = ack3
						if refused && k >= ack2 && v == newVal {
							return fmt.Sprintf("crash-refused-commit-durable: %s: Commit had returned ErrTxSerialization, yet the recovered state holds the refused transaction's value {%s}", where, o), ""
						}
					}
					if !ok {
						state := "in flight"
						if k >= ack2 {
							state = "acknowledged"
						}
						if vs == "S" {
							return fmt.Sprintf("crash-acknowledged-write-lost: %s: both writes were %s; a reader was given #%d once both had returned; recovered state {%s}", where, map[bool]string{true: "acknowledged", false: "not yet both acknowledged"}[k >= ackBoth], finalVal, o), ""
						}
						return fmt.Sprintf("crash-acknowledged-write-lost: %s: the write was %s, the key held the acknowledged value #1 before it; recovered state {%s}", where, state, o), ""
					}
				}
				return "", fmt.Sprintf("%v", len(outcomes))
			},
		}
	})
	_ = time.Second
}
