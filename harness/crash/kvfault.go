package crash

import (
	"context"
	"fmt"

	"github.com/glebziz/fs_db/verifh/conc"
	"github.com/glebziz/fs_db/verifh/dbh"
	"github.com/glebziz/fs_db/verifrt/badger"
	"github.com/glebziz/fs_db/verifrt/vrt"
)

// crash-kvfault: the engine fails inside the commit transaction. Key a holds an acknowledged value; an
// RC transaction writes a and b and commits; the k-th record write inside the commit's KV transaction
// fails (param at=k). Commit must report an error, the committed state must be unchanged — now, and
// after a crash at every later point of the mutation log (nothing of the refused commit may have become
// durable).
func init() {
	conc.Register("crash-kvfault", func(p string) *conc.Scenario {
		at := 1
		fmt.Sscanf(p, "at=%d", &at)
		return &conc.Scenario{
			Options: func(o *vrt.Options) { o.LongTimer = dbh.GCPeriod / 2 },
			Body: func() (string, string) {
				vrt.SetBranching(false)
				dbh.FreshWorld()
				rec := &vrt.Recorder{}
				vrt.Rec = rec
				defer func() { vrt.Rec = nil; badger.FailSetAt = 0 }()
				spec := dbh.Spec{Roots: 1, MaxDirCount: 100, Workers: 1}
				in, err := dbh.Open(spec)
				if err != nil {
					return "infra: open: " + err.Error(), ""
				}
				ctx := context.Background()
				lens := map[int]int{1: 8, 2: 8, 3: 8}
				if err := in.DB.Set(ctx, "a", dbh.Content(1, 8)); err != nil {
					in.Close()
					return "setup Set failed: " + dbh.ShortErr(err), ""
				}
				tx, err := in.DB.Begin(ctx, 1)
				if err == nil {
					err = tx.Set(ctx, "a", dbh.Content(2, 8))
				}
				if err == nil {
					err = tx.Set(ctx, "b", dbh.Content(3, 8))
				}
				if err != nil {
					in.Close()
					return "setup transaction failed: " + dbh.ShortErr(err), ""
				}
				vrt.Quiesce()
				before := len(rec.Log)
				badger.FailSetAt = at
				cerr := tx.Commit(ctx)
				fired := badger.FailSetAt == 0
				badger.FailSetAt = 0
				if !fired {
					in.Close()
					return "", "fault-not-reached" // fewer record writes than at: nothing to check
				}
				if cerr == nil {
					in.Close()
					return "kvfault-error-swallowed: the engine failed inside the commit transaction but Commit returned nil", ""
				}
				live := observe(in, []string{"a", "b"}, lens)
				if live.err != "" || live.vals["a"] != 1 || live.vals["b"] != -1 {
					in.Close()
					return fmt.Sprintf("kvfault-refused-commit-visible: Commit failed (%s) but the committed state reads {%s} %s instead of {a=#1 b=absent}", dbh.ShortErr(cerr), live, live.err), ""
				}
				_ = tx.Rollback(ctx)
				vrt.Quiesce()
				if err := in.Close(); err != nil {
					return "Close failed: " + dbh.ShortErr(err), ""
				}
				vrt.Quiesce()
				vrt.Rec = nil
				log := rec.Log
				badger.AliasVolume(spec.Config().Storage.DbPath, origVol)
				for k := before; k <= len(log); k++ {
					if err := image(spec, log, k, -1, 0); err != nil {
						return "infra: materialise: " + err.Error(), ""
					}
					o, _, m := recoverAndObserve(spec, []string{"a", "b"}, lens, false)
					where := fmt.Sprintf("engine failure at record write %d of the commit transaction, Commit returned an error; crash after %d of %d persistent mutations", at, k, len(log))
					if k > 0 {
						where += " (last: " + log[k-1].String() + ")"
					}
					if m != nil {
						return "kvfault-" + m.Sig + ": " + where + ": " + m.What, ""
					}
					if o.err != "" {
						return "kvfault-unreadable-after-recovery: " + where + ": " + o.err, ""
					}
					if o.vals["a"] != 1 || o.vals["b"] != -1 {
						return fmt.Sprintf("kvfault-refused-commit-durable: %s: recovered state {%s}, expected {a=#1 b=absent}", where, o), ""
					}
				}
				return "", "ok"
			},
		}
	})
}
