// Package dbconc holds the concurrent client programs over the public API of the assembled stack
// (inline.Open … Close) for C06, C07, C08 (and, under the race detector, C15): a tiny program
// language, a recorder of call/return histories, and the oracles.
//
// Program syntax (parameter string):  [I:<steps>|]<thread>|<thread>|…   steps separated by '.'
//
//	S<k> D<k> G<k> K C<k>     autocommit Set / Delete / Get / GetKeys / Create+Write+Write+Close
//	E<k> F<k>                 Create with write sizes 5,1,3 / 2,0,4,0 (empty writes) and Close
//	b<s><l>                   transaction slot s = Begin(level l: 0 RU, 1 RC, 2 RR, 3 SER)
//	s<s><k> d<s><k> g<s><k> k<s> c<s> r<s>   Set / Delete / Get / GetKeys / Commit / Rollback through slot s
//	X                         one garbage-collection period elapses (Sched -> Send -> worker -> DeleteOld)
//	<step>*<n>                the step n times in a row
//
// "I:" steps run sequentially before the threads start (set-up, not explored); afterwards the main
// thread waits for all threads, lets background work settle and reads every key and the key list.
package dbconc

import (
	"bytes"
	"context"
	"fmt"
	"strings"

	"github.com/glebziz/fs_db"
	imodel "github.com/glebziz/fs_db/internal/model"
	"github.com/glebziz/fs_db/verifh/conc"
	"github.com/glebziz/fs_db/verifh/dbh"
	"github.com/glebziz/fs_db/verifh/lin"
	"github.com/glebziz/fs_db/verifh/model"
	"github.com/glebziz/fs_db/verifrt/sync"
	"github.com/glebziz/fs_db/verifrt/vrt"
)

type step struct {
	kind  byte
	slot  int
	key   string
	level int
}

type program struct {
	init    []step
	threads [][]step
	slots   int
	keys    []string
	workers int
	roots   int
	src     string
	// seedFull: start from a stored state with one full, rotated-out directory (100 files, keys
	// s000…s099; program key "z" is s000) and a second directory holding one file
	seedFull bool
	// writerAnnounce: model the writer preference of sync.RWMutex (a pending writer blocks new readers):
	// needed to see deadlocks of recursive read locking; costs one more point per write lock
	writerAnnounce bool
	// unlockPoints: a scheduling point after every Unlock / RUnlock (release points): what a thread does
	// after leaving a critical section may interleave with the threads that enter it next
	unlockPoints bool
	// reopen: after the final reads the database is closed, a new process opens it and reads again: the
	// committed state the clients left must be the state the next process finds (differential oracle)
	reopen bool
	// roundRobin: the default schedule alternates between the threads at every point (vrt.Options.RoundRobin)
	roundRobin bool
}

func parseSteps(s string) []step {
	var out []step
	for _, tok := range strings.Split(s, ".") {
		if tok == "" {
			continue
		}
		// "<step>*<n>": the step n times in a row (bulk programs)
		rep := 1
		if i := strings.LastIndex(tok, "*"); i > 0 {
			fmt.Sscan(tok[i+1:], &rep)
			tok = tok[:i]
		}
		st := step{kind: tok[0]}
		switch tok[0] {
		case 'S', 'D', 'G', 'C', 'E', 'F':
			st.key = tok[1:]
		case 'K', 'X':
		case 'b':
			st.slot = int(tok[1] - '0')
			st.level = int(tok[2] - '0')
		case 's', 'd', 'g':
			st.slot = int(tok[1] - '0')
			st.key = tok[2:]
		case 'k', 'c', 'r':
			st.slot = int(tok[1] - '0')
		default:
			panic("dbconc: bad step " + tok)
		}
		for ; rep > 0; rep-- {
			out = append(out, st)
		}
	}
	return out
}

func parse(p string) *program {
	pr := &program{workers: 1, roots: 1, src: p}
	if i := strings.Index(p, ";"); i >= 0 {
		for _, kv := range strings.Split(p[i+1:], ";") {
			switch {
			case strings.HasPrefix(kv, "w="):
				fmt.Sscan(kv[2:], &pr.workers)
			case strings.HasPrefix(kv, "r="):
				fmt.Sscan(kv[2:], &pr.roots)
			case kv == "seed=full":
				pr.seedFull = true
			case kv == "wa=1":
				pr.writerAnnounce = true
			case kv == "up=1":
				pr.unlockPoints = true
			case kv == "reopen=1":
				pr.reopen = true
			case kv == "rr=1":
				pr.roundRobin = true
			}
		}
		p = p[:i]
	}
	parts := strings.Split(p, "|")
	if strings.HasPrefix(parts[0], "I:") {
		pr.init = parseSteps(parts[0][2:])
		parts = parts[1:]
	}
	for _, t := range parts {
		pr.threads = append(pr.threads, parseSteps(t))
	}
	keys := map[string]bool{}
	note := func(ss []step) {
		for _, s := range ss {
			if s.key != "" {
				keys[s.key] = true
			}
			switch s.kind {
			case 'b', 's', 'd', 'g', 'k', 'c', 'r':
				if s.slot+1 > pr.slots {
					pr.slots = s.slot + 1
				}
			}
		}
	}
	note(pr.init)
	for _, t := range pr.threads {
		note(t)
	}
	for _, k := range []string{"a", "b", "c", "z"} {
		if keys[k] {
			pr.keys = append(pr.keys, k)
		}
	}
	return pr
}

// recorder collects the history; it is outside the race detector's view (one thread runs at a time).
type recorder struct {
	clock int64
	ops   []lin.Op
}

//go:norace
func (r *recorder) tick() int64 { r.clock++; return r.clock }

//go:norace
func (r *recorder) add(o lin.Op) { r.ops = append(r.ops, o) }

type run struct {
	pr     *program
	in     *dbh.Inst
	rec    *recorder
	tx     []fs_db.Tx
	ctx    context.Context
	lenArr [1024]int
}

// per-write content lengths (an array, not a map: the runtime's map code is race-instrumented even
// under //go:norace, and this is harness state)
//
//go:norace
//go:noinline
func (r *run) setLen(id, n int) {
	if id >= 0 && id < len(r.lenArr) {
		r.lenArr[id] = n + 1
	}
}

//go:norace
//go:noinline
func (r *run) lenOf(id int) int {
	if id >= 0 && id < len(r.lenArr) && r.lenArr[id] > 0 {
		return r.lenArr[id] - 1
	}
	return valLen
}

// valueID decodes the write id from a content produced by dbh.Content (length >= 3).
func valueID(b []byte) int {
	if len(b) < 3 {
		return -1
	}
	return int(b[0]) | int(b[1])<<8 | int(b[2]^0xA5)<<16
}

const valLen = 8

// realKey maps the program's key letters to stored keys.
func realKey(k string) string {
	if k == "z" {
		return "s000"
	}
	return k
}

var fullSeed *dbh.Snapshot

// restoreFullSeed builds (once per process) and restores the state with a full rotated-out directory.
func restoreFullSeed(spec dbh.Spec) error {
	if fullSeed == nil {
		dbh.FreshWorld()
		in, err := dbh.Open(spec)
		if err != nil {
			return err
		}
		for i := 0; i <= 100; i++ {
			if err := in.DB.Set(context.Background(), fmt.Sprintf("s%03d", i), dbh.Content(2000+i, valLen)); err != nil {
				return err
			}
		}
		vrt.Quiesce()
		if err := in.Close(); err != nil {
			return err
		}
		vrt.Quiesce()
		sn, err := dbh.TakeSnapshot([]string{in.DBPath}, 1<<20)
		if err != nil {
			return err
		}
		fullSeed = sn
	}
	return fullSeed.Restore()
}

func (r *run) exec(thread int, idx int, st step) {
	st.key = realKey(st.key)
	id := (thread+1)*100 + idx + 1
	op := lin.Op{Thread: thread, Key: st.key, Actor: model.Auto, ValID: id}
	var store fs_db.Store = r.in.DB
	switch st.kind {
	case 's', 'd', 'g', 'k', 'c', 'r':
		op.Actor = st.slot
		store = r.tx[st.slot]
	}
	op.Call = r.rec.tick()
	switch st.kind {
	case 'X':
		vrt.Advance(dbh.GCPeriod)
		return
	case 'S', 's':
		op.Kind = lin.Set
		op.ObsErr = dbh.Class(store.Set(r.ctx, st.key, dbh.Content(id, valLen)))
	case 'C', 'E', 'F':
		op.Kind = lin.Set
		split := []int{3, 5}
		switch st.kind {
		case 'E':
			split = []int{5, 1, 3}
		case 'F':
			split = []int{2, 0, 4, 0}
		}
		n := 0
		for _, x := range split {
			n += x
		}
		r.setLen(id, n)
		f, err := store.Create(r.ctx, st.key)
		if err == nil {
			c := dbh.Content(id, n)
			off := 0
			scratch := make([]byte, n) // re-used for every Write and overwritten after it
			for _, x := range split {
				if err == nil {
					wb := scratch[:x]
					copy(wb, c[off:off+x])
					_, err = f.Write(wb)
					for i := range wb {
						wb[i] = 0xEE
					}
				}
				off += x
			}
			cerr := f.Close()
			if err == nil {
				err = cerr
			}
		}
		op.ObsErr = dbh.Class(err)
	case 'D', 'd':
		op.Kind = lin.Delete
		op.ObsErr = dbh.Class(store.Delete(r.ctx, st.key))
	case 'G', 'g':
		op.Kind = lin.Get
		b, err := store.Get(r.ctx, st.key)
		op.ObsErr = dbh.Class(err)
		if err == nil {
			op.ObsVal = valueID(b)
			if !bytes.Equal(b, dbh.Content(op.ObsVal, r.lenOf(op.ObsVal))) {
				op.ObsVal = -2 // partial or mixed content: matches no write
			}
		}
	case 'K', 'k':
		op.Kind = lin.GetKeys
		ks, err := store.GetKeys(r.ctx)
		op.ObsErr = dbh.Class(err)
		if r.pr.seedFull {
			// the seeded state holds a hundred keys the program does not touch: keep the program's own
			var own []string
			for _, k := range ks {
				for _, pk := range r.pr.keys {
					if realKey(pk) == k {
						own = append(own, k)
					}
				}
			}
			ks = own
		}
		op.ObsKeys = ks
	case 'b':
		op.Kind = lin.Begin
		op.Actor = st.slot
		op.Level = model.Level(st.level)
		tx, err := r.in.DB.Begin(r.ctx, imodel.TxIsoLevel(st.level))
		op.ObsErr = dbh.Class(err)
		r.tx[st.slot] = tx
	case 'c':
		op.Kind = lin.Commit
		op.ObsErr = dbh.Class(r.tx[st.slot].Commit(r.ctx))
	case 'r':
		op.Kind = lin.Rollback
		op.ObsErr = dbh.Class(r.tx[st.slot].Rollback(r.ctx))
	}
	op.Ret = r.rec.tick()
	r.rec.add(op)
}

// Body builds the scenario body for a program.
func (pr *program) body() (string, string) {
	vrt.SetBranching(false)
	spec := dbh.Spec{Roots: pr.roots, MaxDirCount: 100, Workers: pr.workers}
	if pr.seedFull {
		if err := restoreFullSeed(spec); err != nil {
			return "infra: seed: " + err.Error(), ""
		}
	} else {
		dbh.FreshWorld()
	}
	in, err := dbh.Open(spec)
	if err != nil {
		return "infra: open: " + err.Error(), ""
	}
	r := &run{pr: pr, in: in, rec: &recorder{}, tx: make([]fs_db.Tx, pr.slots), ctx: context.Background()}
	if pr.seedFull {
		// the stored value of s000 is part of the history the model starts from
		c := r.rec.tick()
		r.rec.add(lin.Op{Call: c, Ret: r.rec.tick(), Thread: -1, Kind: lin.Set, Actor: model.Auto, Key: "s000", ValID: 2000})
	}
	for i, st := range pr.init {
		r.exec(-1, i, st)
	}
	vrt.Quiesce()
	vrt.SetBranching(true)
	var wg sync.WaitGroup
	wg.Add(len(pr.threads))
	for t, steps := range pr.threads {
		t, steps := t, steps
		vrt.GoNamed(fmt.Sprintf("client%d", t), func() {
			for i, st := range steps {
				r.exec(t, i, st)
			}
			wg.Done()
		})
	}
	wg.Wait()
	vrt.Quiesce()
	vrt.SetBranching(false)
	// final reads by an independent client
	fin := len(pr.threads)
	for i, k := range pr.keys {
		r.exec(fin, i, step{kind: 'G', key: k})
	}
	_ = realKey
	r.exec(fin, len(pr.keys), step{kind: 'K'})
	if err := in.Close(); err != nil {
		return "close-error: " + err.Error(), ""
	}
	vrt.Quiesce()
	if n := vrt.NumLive(); n != 0 {
		return fmt.Sprintf("leaked-threads: %d threads alive after Close: %s", n, vrt.LiveThreads()), ""
	}
	if pr.reopen {
		before := append([]lin.Op(nil), r.rec.ops[len(r.rec.ops)-len(pr.keys)-1:]...)
		dbh.NewProcess()
		in2, err := dbh.Open(spec)
		if err != nil {
			return "restart-open-failed: " + dbh.ShortErr(err), ""
		}
		r.in = in2
		n0 := len(r.rec.ops)
		for i, k := range pr.keys {
			r.exec(fin+1, i, step{kind: 'G', key: k})
		}
		r.exec(fin+1, len(pr.keys), step{kind: 'K'})
		after := append([]lin.Op(nil), r.rec.ops[n0:]...)
		r.rec.ops = r.rec.ops[:n0] // the linearizability search below is about the first life
		cerr := in2.Close()
		vrt.Quiesce()
		for i := range before {
			b, a := before[i], after[i]
			if b.ObsErr != a.ObsErr || b.ObsVal != a.ObsVal || strings.Join(b.ObsKeys, "\x00") != strings.Join(a.ObsKeys, "\x00") {
				return fmt.Sprintf("restart-changes-state: before Close %s, after Close + Open by a new process %s", b.String(), a.String()), ""
			}
		}
		if cerr != nil {
			return "close-error: second life: " + cerr.Error(), ""
		}
	}
	ops := append([]lin.Op(nil), r.rec.ops...)
	out := outcomeKey(ops)
	for _, o := range ops {
		if o.ObsErr == model.ErrOther {
			return fmt.Sprintf("unexpected-error: %s", o.String()), out
		}
		if o.Kind == lin.Get && o.ObsVal == -2 {
			return fmt.Sprintf("partial-content: %s returned bytes that match no write", o.String()), out
		}
	}
	ok, why := lin.Check(ops, pr.slots)
	if !ok {
		return diagnose(ops) + ": " + why, out
	}
	return "", out
}

func outcomeKey(ops []lin.Op) string {
	var b strings.Builder
	for _, o := range ops {
		switch o.Kind {
		case lin.Get:
			if o.ObsErr == model.OK {
				fmt.Fprintf(&b, "%d,", o.ObsVal)
			} else {
				b.WriteString("-,")
			}
		case lin.GetKeys:
			b.WriteString(strings.Join(o.ObsKeys, "") + ",")
		case lin.Commit:
			if o.ObsErr == model.OK {
				b.WriteString("c,")
			} else {
				b.WriteString("x,")
			}
		}
	}
	return b.String()
}

// diagnose names the kind of a non-linearizable history (for signatures); the verdict itself is the
// failed linearizability search.
func diagnose(ops []lin.Op) string {
	// which transactions are snapshot transactions, what did each transaction / autocommit write
	level := map[int]model.Level{}
	writer := map[int]int{} // value id -> slot (or -1)
	written := map[int]map[string]bool{}
	for _, o := range ops {
		if o.Kind == lin.Begin {
			level[o.Actor] = o.Level
		}
		if o.Kind == lin.Set || o.Kind == lin.Delete {
			writer[o.ValID] = o.Actor
			if o.Actor >= 0 {
				if written[o.Actor] == nil {
					written[o.Actor] = map[string]bool{}
				}
				written[o.Actor][o.Key] = true
			}
		}
	}
	// C07: two snapshot transactions with a common written key both committed
	var okCommits []int
	for _, o := range ops {
		if o.Kind == lin.Commit && o.ObsErr == model.OK && level[o.Actor].Snapshot() {
			okCommits = append(okCommits, o.Actor)
		}
	}
	for i := 0; i < len(okCommits); i++ {
		for j := i + 1; j < len(okCommits); j++ {
			for k := range written[okCommits[i]] {
				if written[okCommits[j]][k] {
					return "both-snapshot-commits-succeeded"
				}
			}
		}
	}
	// C08: reads of a snapshot transaction
	for slot, lv := range level {
		if !lv.Snapshot() {
			continue
		}
		// a read that fails although the key had a value from the set-up on and nobody deletes it
		delKey := map[string]bool{}
		initKey := map[string]bool{}
		for _, o := range ops {
			if o.Kind == lin.Delete {
				delKey[o.Key] = true
			}
			if o.Kind == lin.Set && o.Thread == -1 && o.Actor == model.Auto {
				initKey[o.Key] = true
			}
		}
		for _, o := range ops {
			if o.Actor == slot && o.Kind == lin.Get && o.ObsErr == model.ErrNotFound && !written[slot][o.Key] && initKey[o.Key] && !delKey[o.Key] {
				return "snapshot-read-lost-version"
			}
		}
		first := map[string]string{}
		fromTx := map[int]map[string]bool{} // other writer slot -> keys seen new
		for _, o := range ops {
			if o.Actor != slot || o.Kind != lin.Get || written[slot][o.Key] {
				continue
			}
			res := "-"
			if o.ObsErr == model.OK {
				res = fmt.Sprint(o.ObsVal)
				if w, ok := writer[o.ObsVal]; ok && w >= 0 && w != slot {
					if fromTx[w] == nil {
						fromTx[w] = map[string]bool{}
					}
					fromTx[w][o.Key] = true
				}
			}
			if prev, ok := first[o.Key]; ok && prev != res {
				return "snapshot-read-unstable"
			}
			first[o.Key] = res
		}
		for w, seen := range fromTx {
			for k := range written[w] {
				if _, read := first[k]; read && !seen[k] {
					return "fractured-snapshot"
				}
			}
		}
		for _, o := range ops {
			if o.Actor == slot && o.Kind == lin.Get && o.ObsErr == model.ErrNotFound && !written[slot][o.Key] {
				return "snapshot-read-lost-version"
			}
		}
	}
	// keys that have a value from the set-up on and are never deleted by anyone
	deleted := map[string]bool{}
	initSet := map[string]bool{}
	for _, o := range ops {
		if o.Kind == lin.Delete {
			deleted[o.Key] = true
		}
		if o.Kind == lin.Set && o.Thread == -1 && o.Actor == model.Auto {
			initSet[o.Key] = true
		}
	}
	for _, o := range ops {
		if o.Kind == lin.Get && o.ObsErr == model.ErrNotFound && initSet[o.Key] && !deleted[o.Key] {
			return "spurious-not-found"
		}
		if o.Kind == lin.GetKeys && o.ObsErr == model.OK {
			have := map[string]bool{}
			for _, k := range o.ObsKeys {
				have[k] = true
			}
			for k := range initSet {
				if !deleted[k] && !have[k] {
					return "getkeys-missing-live-key"
				}
			}
		}
	}
	for _, o := range ops {
		if (o.Kind == lin.Get) && o.ObsErr == model.ErrNotFound {
			return "not-found-non-linearizable"
		}
	}
	for _, o := range ops {
		if o.Kind == lin.GetKeys {
			return "non-linearizable-keys-or-values"
		}
	}
	return "non-linearizable"
}

func kindOf(v string) string {
	if i := strings.Index(v, ": "); i > 0 {
		return v[:i]
	}
	return ""
}

// witness names structural conditions of a violating execution that identify known defects
// independently of where the deviations happened.
func witness(kind string, steps []conc.Step) []string {
	var out []string
	// w:content-removed-during-read — a reader resolved a version under the read locks (core.getFileFromTx /
	// getFilesFromTx) and, before it fetched that version's content record or opened its file, another
	// thread removed the content (content.Repo.Delete / content_file.Repo.Delete): D4, wherever the reader
	// was held up.
	if kind == "spurious-not-found" || kind == "getkeys-missing-live-key" {
		resolved := map[int]bool{}
		d4 := false
		for _, st := range steps {
			switch {
			case strings.Contains(st.Site, "RLock<internal/usecase/core.(*UseCase).getFileFromTx") ||
				strings.Contains(st.Site, "RLock<internal/usecase/core.(*UseCase).getFilesFromTx"):
				resolved[st.Thread] = true
			case strings.Contains(st.Site, "os.Open<internal/repository/content.(*Repo).Get") ||
				strings.Contains(st.Site, "internal/usecase/transaction.(*UseCase)") ||
				strings.Contains(st.Site, "<internal/usecase/core.(*UseCase).Store"):
				// the read is over (file opened), or the thread has gone on to something else
				delete(resolved, st.Thread)
			case strings.Contains(st.Site, "os.Remove<internal/repository/content.(*Repo).Delete") ||
				strings.Contains(st.Site, "(*Manager).Delete<internal/repository/content_file.(*Repo).Delete"):
				for th := range resolved {
					if th != st.Thread {
						d4 = true
					}
				}
			}
		}
		if d4 {
			out = append(out, "w:content-removed-during-read")
		}
	}
	// w:gc-horizon-during-begin — a GC pass read the transaction registry (or drew its fall-back horizon)
	// while a Begin had drawn its sequence but had not finished registering (D3b/c).
	inflight := map[int]int{} // thread -> 1 drawn, 2 registering (next step ends it)
	hit := false
	var drawOrder, regOrder []int
	gcOpen := map[int]int{} // GC thread -> 1 after Oldest, 2 after its fall-back draw (closes at its next step)
	hit2 := false
	for _, st := range steps {
		if g := gcOpen[st.Thread]; g != 0 {
			if g == 1 && strings.HasPrefix(st.Site, "internal/model/sequence.Next<internal/usecase/cleaner.(*UseCase).DeleteOld") {
				gcOpen[st.Thread] = 2
			} else if !strings.Contains(st.Site, "internal/repository/transaction.(*Repo).Oldest") {
				delete(gcOpen, st.Thread)
			}
		}
		if strings.Contains(st.Site, "internal/repository/transaction.(*Repo).Oldest") {
			gcOpen[st.Thread] = 1
		}
		if st.Op == "atomic" && strings.HasPrefix(st.Site, "internal/model/sequence.Next<internal/usecase/transaction.(*UseCase).Begin") {
			for g, state := range gcOpen {
				if g != st.Thread && state == 1 {
					hit2 = true
				}
			}
		}
		if inflight[st.Thread] == 2 {
			delete(inflight, st.Thread)
			regOrder = append(regOrder, st.Thread)
		}
		switch {
		case st.Op == "atomic" && strings.HasPrefix(st.Site, "internal/model/sequence.Next<internal/usecase/transaction.(*UseCase).Begin"):
			inflight[st.Thread] = 1
			drawOrder = append(drawOrder, st.Thread)
		case st.Op == "lock" && strings.Contains(st.Site, "omap.(*OMap[...]).Store<internal/repository/transaction.(*Repo).Store") && inflight[st.Thread] == 1:
			inflight[st.Thread] = 2
		case strings.Contains(st.Site, "internal/repository/transaction.(*Repo).Oldest") ||
			strings.HasPrefix(st.Site, "internal/model/sequence.Next<internal/usecase/cleaner.(*UseCase).DeleteOld"):
			for th := range inflight {
				if th != st.Thread {
					hit = true
				}
			}
		}
	}
	if hit {
		out = append(out, "w:gc-horizon-during-begin")
	}
	// w:begin-during-gc-horizon — a Begin drew its sequence after a GC pass had found the registry empty
	// but before that pass drew its fall-back horizon (D3d).
	if hit2 {
		out = append(out, "w:begin-during-gc-horizon")
	}
	// w:begins-registered-out-of-sequence-order — two Begins registered in the opposite order of their
	// sequence draws, so the registry's first entry is not the oldest snapshot (D3c).
	pos := map[int]int{}
	for i, th := range regOrder {
		pos[th] = i + 1
	}
	for i := 0; i < len(drawOrder); i++ {
		for j := i + 1; j < len(drawOrder); j++ {
			a, b := pos[drawOrder[i]], pos[drawOrder[j]]
			if a != 0 && b != 0 && b < a {
				out = append(out, "w:begins-registered-out-of-sequence-order")
				return out
			}
		}
	}
	return out
}

func init() {
	conc.Register("db", func(p string) *conc.Scenario {
		pr := parse(p)
		return &conc.Scenario{
			Witness: witness,
			Options: func(o *vrt.Options) {
				o.LongTimer = dbh.GCPeriod / 2
				o.WriterAnnounce = pr.writerAnnounce
				o.UnlockPoints = pr.unlockPoints
				o.RoundRobin = pr.roundRobin
			},
			Body: pr.body,
			Kind: func(v string) string {
				k := kindOf(v)
				if strings.ContainsAny(k, " ") || k == "" {
					return ""
				}
				if strings.HasPrefix(v, "panic in") || strings.HasPrefix(v, "deadlock") || strings.HasPrefix(v, "step-horizon") {
					return ""
				}
				return k
			},
		}
	})
}
