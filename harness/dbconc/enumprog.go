package dbconc

import (
	"fmt"
	"strings"
)

// Systematic program generation for the "for every small concurrent client program" quantifier: two
// client threads, each a sequence of items from a fixed alphabet over key a (autocommit operations and
// whole RU/RC transactions), optionally a GC actor, over two initial states.

// An Alphabet is a list of item templates (%d is replaced by a fresh transaction slot; an item may chain
// several operations with '.') and the initial states its programs start from. Items[:Readers] only read.
type Alphabet struct {
	Items   []string
	Readers int
	Inits   []string
}

// C06: autocommit operations and whole RU/RC transactions on key a.
var AlphaC06 = Alphabet{
	Items: []string{
		"Ga", "K",
		"b%d0.g%da.r%d",     // RU: get
		"b%d1.g%da.k%d.r%d", // RC: get, keys
		"Sa", "Da", "Ca",
		"b%d1.s%da.c%d",     // RC: set, commit
		"b%d1.s%da.r%d",     // RC: set, rollback
		"b%d1.d%da.c%d",     // RC: delete, commit
		"b%d0.s%da.k%d.c%d", // RU: set, keys, commit
	},
	Readers: 4,
	// one version of a; three versions over two keys
	Inits: []string{"I:Sa", "I:Sa.Sa.Sb"},
}

// C07: transactions whose commits may conflict (snapshot writers with intersecting and disjoint write
// sets, next to RC and autocommit writers).
var AlphaC07 = Alphabet{
	Items: []string{
		"b%d2.s%da.c%d",      // RR: set a, commit
		"b%d3.s%da.c%d",      // SER: set a, commit
		"b%d2.s%da.s%db.c%d", // RR: set a, set b, commit
		"b%d3.d%da.c%d",      // SER: delete a, commit
		"b%d2.g%da.s%db.c%d", // RR: get a, set b, commit
		"b%d1.s%da.c%d",      // RC: set a, commit
		"Sa",
		"b%d2.s%da.r%d", // RR: set a, rollback
	},
	// a fresh store with two keys; the same after one transaction has committed and one has been rolled back
	Inits: []string{"I:Sa.Sb", "I:Sa.Sb.b91.s9a.s9b.c9.b81.s8a.r8"},
}

// C08: snapshot readers against every kind of writer on two keys.
var AlphaC08 = Alphabet{
	Items: []string{
		"b%d2.g%da.g%db.g%da.r%d", // RR: get a, get b, get a
		"b%d3.k%d.g%da.g%db.r%d",  // SER: keys, get a, get b
		"b%d2.g%da.k%d.g%da.r%d",  // RR: get a, keys, get a
		"Sa.Sb",
		"Da",
		"b%d1.s%da.s%db.c%d", // RC: set a, set b, commit
		"b%d2.s%da.d%db.c%d", // RR: set a, delete b, commit
		"b%d1.s%da.r%d",      // RC: set a, rollback
	},
	Readers: 3,
	Inits:   []string{"I:Sa.Sb"},
}

// TripleItemsC06: the items of the generated three-client programs (unordered triples with repetition).
var TripleItemsC06 = []string{
	"Ga.Ga",
	"Sa", "Da",
	"b%d1.s%da.c%d",           // RC: set, commit
	"b%d1.s%da.g%da.g%da.r%d", // RC: set, get, get (reads its own write twice), rollback
}

// Programs3 returns every unordered triple (with repetition) of one item per client thread, triples of
// pure readers excluded (items[:readers] only read).
func Programs3(items []string, readers int, init string) []string {
	var out []string
	for a := range items {
		for b := a; b < len(items); b++ {
			for c := b; c < len(items); c++ {
				if c < readers {
					continue
				}
				slot := 0
				ths := []string{instantiate(items[a], &slot), instantiate(items[b], &slot), instantiate(items[c], &slot)}
				out = append(out, init+"|"+strings.Join(ths, "|"))
			}
		}
	}
	return out
}

func instantiate(it string, slot *int) string {
	if !strings.Contains(it, "%d") {
		return it
	}
	n := strings.Count(it, "%d")
	args := make([]any, n)
	for i := range args {
		args[i] = *slot
	}
	*slot++
	return fmt.Sprintf(it, args...)
}

func (al *Alphabet) seqsOf(n int) [][]int {
	if n == 0 {
		return [][]int{nil}
	}
	var out [][]int
	for _, p := range al.seqsOf(n - 1) {
		for i := range al.Items {
			out = append(out, append(append([]int{}, p...), i))
		}
	}
	return out
}

// Programs returns the generated programs with la items in the first client thread and lb in the second
// (unordered pairs when la == lb), from the given initial state, with or without the GC actor thread.
func (al *Alphabet) Programs(la, lb int, init string, gc bool) []string {
	pure := func(s []int) bool { // a thread that only reads
		for _, i := range s {
			if i >= al.Readers {
				return false
			}
		}
		return true
	}
	sa, sb := al.seqsOf(la), al.seqsOf(lb)
	var out []string
	for a := range sa {
		for b := range sb {
			if la == lb && b < a {
				continue
			}
			if pure(sa[a]) && pure(sb[b]) {
				continue // two readers: nothing to linearize against
			}
			slot := 0
			var ths []string
			for _, s := range [][]int{sa[a], sb[b]} {
				var parts []string
				for _, i := range s {
					parts = append(parts, instantiate(al.Items[i], &slot))
				}
				ths = append(ths, strings.Join(parts, "."))
			}
			if slot > 9 {
				continue
			}
			p := init + "|" + strings.Join(ths, "|")
			if gc {
				p += "|X"
			}
			out = append(out, p)
		}
	}
	return out
}
