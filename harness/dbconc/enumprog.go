package dbconc

import (
	"fmt"
	"strings"
)

// Systematic program generation for the "for every small concurrent client program" quantifier: two
// client threads, each a sequence of one or two items from a fixed alphabet over key a (autocommit
// operations and whole RU/RC transactions), optionally a GC actor, over two initial states.

// item is a template; %d is replaced by a fresh transaction slot.
var items = []string{
	"Sa", "Da", "Ga", "K", "Ca",
	"b%d1.s%da.c%d",     // RC: set, commit
	"b%d1.s%da.r%d",     // RC: set, rollback
	"b%d0.g%da.r%d",     // RU: get
	"b%d1.d%da.c%d",     // RC: delete, commit
	"b%d1.g%da.k%d.r%d", // RC: get, keys
	"b%d0.s%da.k%d.c%d", // RU: set, keys, commit
}

func instantiate(it string, slot *int) string {
	if !strings.Contains(it, "%d") {
		return it
	}
	n := strings.Count(it, "%d")
	args := make([]any, n)
	for i := range args {
		args[i] = *slot
	}
	*slot++
	return fmt.Sprintf(it, args...)
}

// Programs returns the generated programs: itemsPerThread 1 or 2; gc adds the GC actor thread.
func Programs(itemsPerThread int) []string {
	var seqs [][]int
	for i := range items {
		seqs = append(seqs, []int{i})
	}
	if itemsPerThread >= 2 {
		for i := range items {
			for j := range items {
				seqs = append(seqs, []int{i, j})
			}
		}
	}
	pure := func(s []int) bool { // a thread that only reads
		for _, i := range s {
			switch items[i] {
			case "Ga", "K", "b%d0.g%da.r%d", "b%d1.g%da.k%d.r%d":
			default:
				return false
			}
		}
		return true
	}
	var out []string
	for a := 0; a < len(seqs); a++ {
		for b := a; b < len(seqs); b++ {
			if pure(seqs[a]) && pure(seqs[b]) {
				continue // two readers: nothing to linearize against
			}
			for _, init := range []string{"I:Sa", "I:Sa.Sa.Sb"} {
				for _, gc := range []bool{false, true} {
					slot := 0
					var ths []string
					for _, s := range [][]int{seqs[a], seqs[b]} {
						var parts []string
						for _, i := range s {
							parts = append(parts, instantiate(items[i], &slot))
						}
						ths = append(ths, strings.Join(parts, "."))
					}
					if slot > 9 {
						continue
					}
					p := init + "|" + strings.Join(ths, "|")
					if gc {
						p += "|X"
					}
					out = append(out, p)
				}
			}
		}
	}
	return out
}
