// Package dbh creates and observes fs_db instances for the harnesses: scratch directories on tmpfs,
// deterministic UUIDs, configuration, error classification, value generation.
package dbh

import (
	"bytes"
	"context"
	"errors"
	"fmt"
	"io"
	"os"
	"path/filepath"
	"reflect"
	"sort"
	"strings"
	"time"
	"unsafe"

	"github.com/google/uuid"

	"github.com/glebziz/fs_db"
	"github.com/glebziz/fs_db/config"
	"github.com/glebziz/fs_db/internal/di"
	imodel "github.com/glebziz/fs_db/internal/model"
	"github.com/glebziz/fs_db/pkg/inline"
	"github.com/glebziz/fs_db/verifh/model"
	"github.com/glebziz/fs_db/verifrt/badger"
	"github.com/glebziz/fs_db/verifrt/disk"
	"github.com/glebziz/fs_db/verifrt/vrt"
)

const GCPeriod = time.Hour

// Base returns this process's scratch directory (on tmpfs when available).
var base string

func Base() string {
	if base != "" {
		return base
	}
	if d := os.Getenv("VERIF_BASE_DIR"); d != "" {
		base = d
		os.MkdirAll(base, 0o755)
		ownBase = false
		return base
	}
	root := "/dev/shm"
	if st, err := os.Stat(root); err != nil || !st.IsDir() {
		root = os.TempDir()
	}
	// the runner gives every run a directory of its own and removes it afterwards: workers that are
	// stopped at the end of a budget do not get to clean up after themselves
	if r := os.Getenv("VERIF_INST_ROOT"); r != "" {
		if err := os.MkdirAll(r, 0o755); err == nil {
			root = r
		}
	}
	d, err := os.MkdirTemp(root, "verif-inst-")
	if err != nil {
		panic(err)
	}
	base = d
	return base
}

var ownBase = true

// SwapBase points this process at another scratch directory; the returned function restores the old one.
func SwapBase(dir string) func() {
	old, oldOwn := base, ownBase
	base, ownBase = dir, false
	return func() { base, ownBase = old, oldOwn }
}

// Cleanup removes the process scratch directory.
func Cleanup() {
	if base != "" && ownBase {
		os.RemoveAll(base)
	}
}

// Spec describes an instance.
type Spec struct {
	Name        string // sub-directory of Base
	Roots       int
	MaxDirCount uint64
	Workers     int
	// RootSpelling: how the configuration spells the root directories: 0 canonical; 1 with a trailing
	// slash; 2 with a "." element ("<dir>/./root0", like the documented default "./testStorage")
	RootSpelling int
}

// Inst is one opened database with its directories.
type Inst struct {
	Spec    Spec
	Dir     string
	Roots   []string
	DBPath  string
	DB      fs_db.DB
	CloseFn func() error // replaces DB.Close (gRPC tier: also stops the server)
	// RawTx ends (commit=true: Commit, else Rollback) the transaction named txId without a handle from
	// Begin; named=false: no transaction is named at all. gRPC tier: a raw protocol call; inline: the
	// transaction use case of the instance's container (what the server's handler calls).
	RawTx func(commit bool, txId string, named bool) error
}

func container(db fs_db.DB) (*di.Container, error) {
	v := reflect.ValueOf(db)
	if v.Kind() == reflect.Ptr {
		v = v.Elem()
	}
	f := v.FieldByName("container")
	if !f.IsValid() || f.Kind() != reflect.Ptr {
		return nil, fmt.Errorf("no container in %T", db)
	}
	return (*di.Container)(unsafe.Pointer(f.Pointer())), nil
}

func (s Spec) dir() string {
	n := s.Name
	if n == "" {
		n = "db"
	}
	return filepath.Join(Base(), n)
}

// CanonRoots is the root directories in canonical spelling (what the harness looks at, however the
// configuration spells them).
func (s Spec) CanonRoots() []string {
	d := s.dir()
	roots := make([]string, max(s.Roots, 1))
	for i := range roots {
		roots[i] = filepath.Join(d, fmt.Sprintf("root%d", i))
	}
	return roots
}

func (s Spec) Config() config.Config {
	d := s.dir()
	roots := s.CanonRoots()
	for i := range roots {
		switch s.RootSpelling {
		case 1:
			roots[i] += "/"
		case 2:
			roots[i] = d + "/./" + fmt.Sprintf("root%d", i)
		}
	}
	return config.Config{
		Storage: config.Storage{DbPath: filepath.Join(d, "badger"), MaxDirCount: s.MaxDirCount, RootDirs: roots, GCPeriod: GCPeriod},
		WPool:   config.WPool{NumWorkers: max(s.Workers, 1), SendDuration: time.Millisecond},
	}
}

// FreshWorld wipes everything this process owns: directories, in-memory volumes, disk table, package
// globals (new process) and restarts the UUID stream. Call at the start of every history/execution.
func FreshWorld() {
	vrt.WipeDir(Base())
	badger.ResetVolumesExcept("/__snapshots__/")
	disk.Reset()
	vrt.ResetGlobals()
	uuid.SetRand(&vrt.DetRand{})
}

// NewProcess emulates a process restart without touching persistent state.
func NewProcess() {
	badger.ForceCloseAll()
	vrt.ResetGlobals()
}

// Open opens (creating directories as the product does) the instance described by spec.
func Open(spec Spec) (*Inst, error) {
	cfg := spec.Config()
	in := &Inst{Spec: spec, Dir: spec.dir(), Roots: spec.CanonRoots(), DBPath: cfg.Storage.DbPath}
	db, err := inline.Open(context.Background(), cfg)
	if err != nil {
		return nil, err
	}
	in.DB = db
	in.RawTx = func(commit bool, txId string, named bool) error {
		c, err := container(db)
		if err != nil {
			return err
		}
		ctx := context.Background()
		if named {
			ctx = imodel.StoreTxId(ctx, txId)
		}
		if commit {
			return c.Transaction().Commit(ctx)
		}
		return c.Transaction().Rollback(ctx)
	}
	return in, nil
}

func (in *Inst) Close() error {
	if in.CloseFn != nil {
		return in.CloseFn()
	}
	return in.DB.Close()
}

// GC runs one collection pass through the production path: the GC period elapses on the virtual
// clock, the scheduler loop sends the job, a worker runs it; then everything settles.
func GC() {
	vrt.Advance(GCPeriod)
	vrt.Quiesce()
}

// GCOn is GC for either mode: under the scheduler the production path above; free-running (real time,
// no virtual clock) the very function the scheduled job calls, cleaner.DeleteOld, is invoked directly
// on the instance's container (reached by reflection: the inline client does not export it).
func GCOn(in *Inst) error {
	if vrt.Managed() {
		GC()
		return nil
	}
	v := reflect.ValueOf(in.DB)
	if v.Kind() == reflect.Ptr {
		v = v.Elem()
	}
	f := v.FieldByName("container")
	if !f.IsValid() || f.Kind() != reflect.Ptr {
		return fmt.Errorf("no container in %T", in.DB)
	}
	c := (*di.Container)(unsafe.Pointer(f.Pointer()))
	return c.Cleaner().DeleteOld(context.Background())
}

// ------------------------------------------------------------------ values

// Content generates the bytes of write id with length n: the id in the first bytes (as far as they
// fit), then position-dependent bytes, so truncation, duplication and chunk swaps are visible.
func Content(id, n int) []byte {
	b := make([]byte, n)
	for i := range b {
		switch i {
		case 0:
			b[i] = byte(id)
		case 1:
			b[i] = byte(id >> 8)
		case 2:
			b[i] = byte(id>>16) ^ 0xA5
		default:
			b[i] = byte(i*7 + i/253 + id*31)
		}
	}
	return b
}

// Describe summarises how got differs from want.
func Describe(got, want []byte) string {
	switch {
	case bytes.Equal(got, want):
		return "equal"
	case len(got) < len(want) && bytes.Equal(got, want[:len(got)]):
		return fmt.Sprintf("truncated(%d of %d bytes)", len(got), len(want))
	case len(got) > len(want) && bytes.Equal(got[:len(want)], want):
		return fmt.Sprintf("extended(%d instead of %d bytes)", len(got), len(want))
	case len(got) == len(want):
		return fmt.Sprintf("corrupted(same length %d)", len(got))
	default:
		return fmt.Sprintf("different(%d bytes instead of %d)", len(got), len(want))
	}
}

// ------------------------------------------------------------------ errors

// Class maps an error to the model's error classes by errors.Is over the exported sentinels.
func Class(err error) model.Err {
	switch {
	case err == nil:
		return model.OK
	case errors.Is(err, fs_db.ErrNotFound):
		return model.ErrNotFound
	case errors.Is(err, fs_db.ErrEmptyKey):
		return model.ErrEmptyKey
	case errors.Is(err, fs_db.ErrTxNotFound):
		return model.ErrTxNotFound
	case errors.Is(err, fs_db.ErrTxSerialization):
		return model.ErrTxSerialization
	}
	return model.ErrOther
}

// ------------------------------------------------------------------ disk inspection

// ContentFiles lists the regular files below the roots as root-relative paths "rootN/dir/file".
func (in *Inst) ContentFiles() ([]string, error) {
	var out []string
	for i, r := range in.Roots {
		err := filepath.Walk(r, func(p string, info os.FileInfo, err error) error {
			if err != nil {
				return err
			}
			if info.Mode().IsRegular() {
				rel, _ := filepath.Rel(r, p)
				out = append(out, fmt.Sprintf("root%d/%s", i, rel))
			}
			return nil
		})
		if err != nil && !os.IsNotExist(err) {
			return nil, err
		}
	}
	sort.Strings(out)
	return out, nil
}

// ReadAll reads a reader to EOF and closes it.
func ReadAll(rc io.ReadCloser) ([]byte, error) {
	defer rc.Close()
	return io.ReadAll(rc)
}

func ShortErr(err error) string {
	if err == nil {
		return "nil"
	}
	s := err.Error()
	if len(s) > 120 {
		s = s[:120]
	}
	return strings.ReplaceAll(s, Base(), "$B")
}

// ------------------------------------------------------------------ snapshots of the persistent state

// Snapshot is a copy of everything persistent below Base(): directory tree and in-memory KV volumes.
type Snapshot struct {
	dirs  []string          // relative directory paths
	files map[string][]byte // relative file path -> content
	vols  map[string]string // volume path -> private clone path
	uuidN uint64
}

var snapSeq int

// TakeSnapshot copies the persistent state (call with every database closed).
func TakeSnapshot(volumePaths []string, uuidN uint64) (*Snapshot, error) {
	s := &Snapshot{files: map[string][]byte{}, vols: map[string]string{}, uuidN: uuidN}
	b := Base()
	err := filepath.Walk(b, func(p string, info os.FileInfo, err error) error {
		if err != nil {
			return err
		}
		rel, _ := filepath.Rel(b, p)
		if rel == "." {
			return nil
		}
		if info.IsDir() {
			s.dirs = append(s.dirs, rel)
			return nil
		}
		c, err := os.ReadFile(p)
		if err != nil {
			return err
		}
		s.files[rel] = c
		return nil
	})
	if err != nil {
		return nil, err
	}
	for _, vp := range volumePaths {
		snapSeq++
		clone := fmt.Sprintf("/__snapshots__/%d", snapSeq)
		badger.CloneVolumeAt(vp, ^uint64(0), clone)
		s.vols[vp] = clone
	}
	return s, nil
}

// Restore makes the world equal to the snapshot (new process: globals reset, volumes unlocked).
func (s *Snapshot) Restore() error {
	b := Base()
	if err := vrt.WipeDir(b); err != nil {
		return err
	}
	for _, d := range s.dirs {
		if err := os.MkdirAll(filepath.Join(b, d), 0o750); err != nil {
			return err
		}
	}
	for rel, c := range s.files {
		if err := os.WriteFile(filepath.Join(b, rel), c, 0o640); err != nil {
			return err
		}
	}
	for vp, clone := range s.vols {
		badger.CloneVolumeAt(clone, ^uint64(0), vp)
	}
	disk.Reset()
	vrt.ResetGlobals()
	uuid.SetRand(&vrt.DetRand{N: s.uuidN})
	return nil
}

// OpenReal opens the instance on the real Badger engine (conformance tier).
func OpenReal(spec Spec) (*Inst, error) {
	badger.UseReal = true
	defer func() { badger.UseReal = false }()
	return Open(spec)
}
