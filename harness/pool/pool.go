// Package pool holds the C16 programs: the worker pool alone (New/Run/Send/Sched/Stop) under the
// schedule explorer, with harness closures as jobs.
package pool

import (
	"context"
	"fmt"
	"strconv"
	"strings"
	"time"

	"github.com/glebziz/fs_db/internal/utils/wpool"
	"github.com/glebziz/fs_db/verifh/conc"
	"github.com/glebziz/fs_db/verifrt/sync"
	"github.com/glebziz/fs_db/verifrt/vrt"
)

const gcPeriod = time.Hour

type env struct {
	p       *wpool.Pool
	runs    []vrt.Cell
	stopped vrt.Cell
	late    vrt.Cell // a job started after Stop had returned
	done    []vrt.Cell
}

func newEnv(workers, jobs int) *env {
	e := &env{p: wpool.New(wpool.Options{NumWorkers: workers, SendDuration: time.Millisecond})}
	e.runs = make([]vrt.Cell, jobs)
	e.done = make([]vrt.Cell, jobs)
	return e
}

func (e *env) job(i int, gate chan struct{}) wpool.Event {
	return wpool.Event{Caller: "job" + strconv.Itoa(i), Fn: func(ctx context.Context) error {
		if e.stopped.Get() != 0 {
			e.late.Set(1)
		}
		e.runs[i].Add(1)
		if gate != nil {
			vrt.Recv(gate)
		}
		e.done[i].Set(1)
		return nil
	}}
}

func (e *env) checkOnce(from, to int) string {
	for i := from; i < to; i++ {
		if n := e.runs[i].Get(); n != 1 {
			return fmt.Sprintf("job-ran-%d-times: job %d of an accepted Send ran %d times (pool running, quiescent)", n, i, n)
		}
	}
	return ""
}

func (e *env) checkAtMostOnce() string {
	for i := range e.runs {
		if n := e.runs[i].Get(); n > 1 {
			return fmt.Sprintf("job-ran-%d-times: job %d ran %d times", n, i, n)
		}
	}
	if e.late.Get() != 0 {
		return "job-started-after-stop: a job started after Stop had returned"
	}
	return ""
}

func outcome(e *env) string {
	var b strings.Builder
	for i := range e.runs {
		fmt.Fprintf(&b, "%d", e.runs[i].Get())
	}
	return b.String()
}

func leak() string {
	if n := vrt.NumLive(); n != 0 {
		return fmt.Sprintf("leaked-threads: %d threads alive after Stop returned and quiescence: %s", n, vrt.LiveThreads())
	}
	return ""
}

func atoi(s string, d int) int {
	if n, err := strconv.Atoi(s); err == nil {
		return n
	}
	return d
}

func params(p string) map[string]int {
	m := map[string]int{}
	for _, kv := range strings.Split(p, ",") {
		if i := strings.IndexByte(kv, '='); i > 0 {
			m[kv[:i]] = atoi(kv[i+1:], 0)
		}
	}
	return m
}

func opts(o *vrt.Options) { o.LongTimer = time.Minute }

// writerPref: the same program with the writer preference of sync.RWMutex modelled (a pending Lock blocks
// new RLocks): recursive read locking under the pool's life-cycle lock deadlocks only then.
func writerPref(p string) bool { return params(p)["wa"] == 1 }

func optsFor(p string) func(o *vrt.Options) {
	return func(o *vrt.Options) {
		opts(o)
		o.WriterAnnounce = writerPref(p)
	}
}

func init() {
	// busy: one worker slot is held by a gated job, K further jobs are sent by S sender threads (the
	// channel holds 2*W of them, the rest take the deferred path), all Sends must return while the gate
	// is closed; then L late senders run concurrently with the opening of the gate.
	conc.Register("pool-busy", func(p string) *conc.Scenario {
		m := params(p)
		W, K, S, L := max(m["w"], 1), m["k"], max(m["s"], 1), m["l"]
		return &conc.Scenario{Options: optsFor(p), Body: func() (string, string) {
			vrt.SetBranching(false)
			e := newEnv(W, W+K+L)
			ctx := context.Background()
			e.p.Run(ctx)
			gate := make(chan struct{})
			for i := 0; i < W; i++ {
				e.p.Send(ctx, e.job(i, gate))
			}
			vrt.Quiesce()
			vrt.SetBranching(true)
			var wg sync.WaitGroup
			wg.Add(S)
			for s := 0; s < S; s++ {
				s := s
				vrt.GoNamed("sender", func() {
					for i := s; i < K; i += S {
						e.p.Send(ctx, e.job(W+i, nil))
					}
					wg.Done()
				})
			}
			wg.Wait() // Send is prompt: every Send returned although no worker is free
			var lw sync.WaitGroup
			lw.Add(L)
			for l := 0; l < L; l++ {
				l := l
				vrt.GoNamed("late-sender", func() {
					e.p.Send(ctx, e.job(W+K+l, nil))
					lw.Done()
				})
			}
			vrt.Close(gate)
			lw.Wait()
			vrt.Quiesce()
			if v := e.checkOnce(0, W+K+L); v != "" {
				return v, outcome(e)
			}
			e.p.Stop()
			e.stopped.Set(1)
			vrt.Quiesce()
			if v := e.checkAtMostOnce(); v != "" {
				return v, outcome(e)
			}
			return leak(), outcome(e)
		}}
	})

	// stop: Stop concurrent with senders and with a job in flight.
	conc.Register("pool-stop", func(p string) *conc.Scenario {
		m := params(p)
		W, K, G := max(m["w"], 1), m["k"], m["g"]
		return &conc.Scenario{Options: optsFor(p), Body: func() (string, string) {
			vrt.SetBranching(false)
			e := newEnv(W, K+1)
			ctx := context.Background()
			e.p.Run(ctx)
			var gate chan struct{}
			if G > 0 {
				gate = make(chan struct{})
				e.p.Send(ctx, e.job(K, gate))
				vrt.Quiesce()
			}
			vrt.SetBranching(true)
			var wg sync.WaitGroup
			wg.Add(1)
			vrt.GoNamed("sender", func() {
				for i := 0; i < K; i++ {
					e.p.Send(ctx, e.job(i, nil))
				}
				wg.Done()
			})
			if G > 0 {
				wg.Add(1)
				vrt.GoNamed("gate-opener", func() { vrt.Close(gate); wg.Done() })
			}
			e.p.Stop()
			e.stopped.Set(1)
			if G > 0 && e.runs[K].Get() > 0 && e.done[K].Get() == 0 {
				return "stop-returned-before-job-finished: Stop returned while a job was still running", outcome(e)
			}
			wg.Wait()
			vrt.Quiesce()
			if v := e.checkAtMostOnce(); v != "" {
				return v, outcome(e)
			}
			return leak(), outcome(e)
		}}
	})

	// restart: Run / Send / Stop / Run / Send / Stop, sequential client, background threads interleaved.
	conc.Register("pool-restart", func(p string) *conc.Scenario {
		m := params(p)
		W := max(m["w"], 1)
		return &conc.Scenario{Options: optsFor(p), Body: func() (string, string) {
			e := newEnv(W, 4)
			ctx := context.Background()
			e.p.Run(ctx)
			e.p.Run(ctx) // already running: must be harmless
			e.p.Send(ctx, e.job(0, nil))
			e.p.Send(ctx, e.job(1, nil))
			vrt.Quiesce()
			if v := e.checkOnce(0, 2); v != "" {
				return v, outcome(e)
			}
			e.p.Stop()
			e.p.Stop()                   // already stopped: must be harmless
			e.p.Send(ctx, e.job(3, nil)) // after Stop: dropped or run once, never a panic
			e.p.Run(ctx)
			e.p.Send(ctx, e.job(2, nil))
			vrt.Quiesce()
			if v := e.checkOnce(2, 3); v != "" {
				return v, outcome(e)
			}
			e.p.Stop()
			e.stopped.Set(1)
			vrt.Quiesce()
			if v := e.checkAtMostOnce(); v != "" {
				return v, outcome(e)
			}
			return leak(), outcome(e)
		}}
	})

	// sched: a periodic job; the clock advances while Stop runs.
	conc.Register("pool-sched", func(p string) *conc.Scenario {
		m := params(p)
		W := max(m["w"], 1)
		return &conc.Scenario{Options: optsFor(p), Body: func() (string, string) {
			vrt.SetBranching(false)
			e := newEnv(W, 1)
			ctx := context.Background()
			e.p.Run(ctx)
			ticks := &vrt.Cell{}
			e.p.Sched(ctx, wpool.Event{Caller: "tick", Fn: func(context.Context) error {
				if e.stopped.Get() != 0 {
					e.late.Set(1)
				}
				ticks.Add(1)
				return nil
			}}, gcPeriod)
			vrt.Quiesce()
			vrt.Advance(gcPeriod)
			vrt.Quiesce()
			if ticks.Get() != 1 {
				return fmt.Sprintf("sched-tick-count: %d runs after one period", ticks.Get()), ""
			}
			vrt.SetBranching(true)
			var wg sync.WaitGroup
			wg.Add(1)
			vrt.GoNamed("clock", func() { vrt.Advance(gcPeriod); wg.Done() })
			e.p.Stop()
			e.stopped.Set(1)
			wg.Wait()
			vrt.Quiesce()
			if e.late.Get() != 0 {
				return "job-started-after-stop: the scheduled job started after Stop had returned", fmt.Sprint(ticks.Get())
			}
			if ticks.Get() > 2 {
				return fmt.Sprintf("sched-tick-count: %d runs after two periods", ticks.Get()), ""
			}
			return leak(), fmt.Sprint(ticks.Get())
		}}
	})

	// order: Send / Stop before the first Run, and Stop racing Stop.
	conc.Register("pool-send-before-run", func(p string) *conc.Scenario {
		return &conc.Scenario{Options: optsFor(p), Body: func() (string, string) {
			e := newEnv(1, 1)
			e.p.Send(context.Background(), e.job(0, nil))
			vrt.Quiesce()
			e.p.Run(context.Background())
			e.p.Stop()
			vrt.Quiesce()
			if v := e.checkAtMostOnce(); v != "" {
				return v, outcome(e)
			}
			return leak(), outcome(e)
		}}
	})
	conc.Register("pool-stop-before-run", func(p string) *conc.Scenario {
		return &conc.Scenario{Options: optsFor(p), Body: func() (string, string) {
			e := newEnv(1, 1)
			e.p.Stop()
			e.p.Run(context.Background())
			e.p.Send(context.Background(), e.job(0, nil))
			vrt.Quiesce()
			if v := e.checkOnce(0, 1); v != "" {
				return v, outcome(e)
			}
			e.p.Stop()
			vrt.Quiesce()
			return leak(), outcome(e)
		}}
	})
	// stop-busy: the worker is held, the channel is full, a sender is parked in Send when Stop arrives.
	conc.Register("pool-stop-busy", func(p string) *conc.Scenario {
		return &conc.Scenario{Options: optsFor(p), Body: func() (string, string) {
			vrt.SetBranching(false)
			e := newEnv(1, 4)
			ctx := context.Background()
			e.p.Run(ctx)
			gate := make(chan struct{})
			e.p.Send(ctx, e.job(0, gate))
			vrt.Quiesce()
			e.p.Send(ctx, e.job(1, nil))
			e.p.Send(ctx, e.job(2, nil))
			vrt.SetBranching(true)
			var wg sync.WaitGroup
			wg.Add(2)
			vrt.GoNamed("sender", func() { e.p.Send(ctx, e.job(3, nil)); wg.Done() })
			vrt.GoNamed("gate-opener", func() { vrt.Close(gate); wg.Done() })
			e.p.Stop()
			e.stopped.Set(1)
			wg.Wait()
			vrt.Quiesce()
			if v := e.checkAtMostOnce(); v != "" {
				return v, outcome(e)
			}
			return leak(), outcome(e)
		}}
	})

	// stop-busy-restart: as stop-busy, but a flusher of the deferred list is already parked when Stop and
	// the late sender race; then a second life of the pool drains its deferred list: nothing accepted in
	// the first life may start in the second.
	conc.Register("pool-stop-busy-restart", func(p string) *conc.Scenario {
		m := params(p)
		// the late sender's time-out is the subject: it may fire at any moment at no cost
		o := func(o *vrt.Options) { opts(o); o.FreeTimers = true; o.WriterAnnounce = writerPref(p) }
		return &conc.Scenario{Options: o, Body: func() (string, string) {
			vrt.SetBranching(false)
			e := newEnv(1, 9)
			ctx := context.Background()
			e.p.Run(ctx)
			gate := make(chan struct{})
			e.p.Send(ctx, e.job(0, gate))
			vrt.Quiesce()
			e.p.Send(ctx, e.job(1, nil))
			e.p.Send(ctx, e.job(2, nil))
			e.p.Send(ctx, e.job(3, nil)) // deferred: its flusher parks on the full channel
			vrt.SetBranching(true)
			var wg sync.WaitGroup
			wg.Add(2)
			if m["main"] == 1 {
				// the main thread is the late sender: its time-out may fire the moment it has parked, and
				// running on after that costs nothing — one deviation less than with a spawned sender
				vrt.GoNamed("stopper", func() { e.p.Stop(); e.stopped.Set(1); wg.Done() })
				vrt.GoNamed("gate-opener", func() { vrt.Close(gate); wg.Done() })
				e.p.Send(ctx, e.job(4, nil))
			} else {
				vrt.GoNamed("sender", func() { e.p.Send(ctx, e.job(4, nil)); wg.Done() })
				vrt.GoNamed("gate-opener", func() { vrt.Close(gate); wg.Done() })
				e.p.Stop()
				e.stopped.Set(1)
			}
			wg.Wait()
			vrt.Quiesce()
			if v := e.checkAtMostOnce(); v != "" {
				return v, outcome(e)
			}
			vrt.SetBranching(false)
			var first [5]int64
			for i := range first {
				first[i] = e.runs[i].Get()
			}
			e.stopped.Set(0)
			e.p.Run(ctx)
			gate2 := make(chan struct{})
			e.p.Send(ctx, e.job(5, gate2))
			vrt.Quiesce()
			e.p.Send(ctx, e.job(6, nil))
			e.p.Send(ctx, e.job(7, nil))
			e.p.Send(ctx, e.job(8, nil)) // deferred again
			vrt.Close(gate2)
			vrt.Quiesce()
			for i := range first {
				if e.runs[i].Get() != first[i] {
					return fmt.Sprintf("job-started-after-stop: job %d, handed to Send before Stop, started in the pool's next life (after that Stop had returned)", i), outcome(e)
				}
			}
			if v := e.checkOnce(5, 9); v != "" {
				return v, outcome(e)
			}
			e.p.Stop()
			e.stopped.Set(1)
			vrt.Quiesce()
			if v := e.checkAtMostOnce(); v != "" {
				return v, outcome(e)
			}
			return leak(), outcome(e)
		}}
	})

	// stop-deferring: the main thread is a sender whose time-out fires (at no cost) while the worker is
	// held and the channel is full; Stop runs in another thread. Whatever the sender does after its timed
	// wait must still be covered by Stop.
	conc.Register("pool-stop-deferring", func(p string) *conc.Scenario {
		o := func(o *vrt.Options) { opts(o); o.FreeTimers = true; o.WriterAnnounce = writerPref(p) }
		return &conc.Scenario{Options: o, Body: func() (string, string) {
			vrt.SetBranching(false)
			e := newEnv(1, 4)
			ctx := context.Background()
			e.p.Run(ctx)
			gate := make(chan struct{})
			e.p.Send(ctx, e.job(0, gate))
			vrt.Quiesce()
			e.p.Send(ctx, e.job(1, nil))
			e.p.Send(ctx, e.job(2, nil))
			vrt.SetBranching(true)
			var wg sync.WaitGroup
			wg.Add(2)
			vrt.GoNamed("stopper", func() { e.p.Stop(); e.stopped.Set(1); wg.Done() })
			vrt.GoNamed("gate-opener", func() { vrt.Close(gate); wg.Done() })
			e.p.Send(ctx, e.job(3, nil))
			wg.Wait()
			vrt.Quiesce()
			if v := e.checkAtMostOnce(); v != "" {
				return v, outcome(e)
			}
			return leak(), outcome(e)
		}}
	})

	// restart-race: a second life of the pool begins (Run) while a Send and a Stop are in flight.
	conc.Register("pool-restart-race", func(p string) *conc.Scenario {
		m := params(p)
		return &conc.Scenario{Options: optsFor(p), Body: func() (string, string) {
			vrt.SetBranching(false)
			e := newEnv(1, 2)
			ctx := context.Background()
			e.p.Run(ctx)
			e.p.Send(ctx, e.job(0, nil))
			vrt.Quiesce()
			e.p.Stop()
			vrt.SetBranching(true)
			var wg sync.WaitGroup
			wg.Add(1)
			vrt.GoNamed("sender", func() { e.p.Send(ctx, e.job(1, nil)); wg.Done() })
			if m["stop"] > 0 {
				wg.Add(1)
				vrt.GoNamed("stopper", func() { e.p.Stop(); wg.Done() })
			}
			e.p.Run(ctx)
			wg.Wait()
			vrt.Quiesce()
			if v := e.checkAtMostOnce(); v != "" {
				return v, outcome(e)
			}
			e.p.Stop()
			vrt.Quiesce()
			return leak(), outcome(e)
		}}
	})
	conc.Register("pool-stop-stop", func(p string) *conc.Scenario {
		return &conc.Scenario{Options: optsFor(p), Body: func() (string, string) {
			vrt.SetBranching(false)
			e := newEnv(1, 1)
			ctx := context.Background()
			e.p.Run(ctx)
			e.p.Send(ctx, e.job(0, nil))
			vrt.Quiesce()
			vrt.SetBranching(true)
			var wg sync.WaitGroup
			wg.Add(1)
			vrt.GoNamed("stopper", func() { e.p.Stop(); wg.Done() })
			e.p.Stop()
			wg.Wait()
			vrt.Quiesce()
			if v := e.checkOnce(0, 1); v != "" {
				return v, outcome(e)
			}
			return leak(), outcome(e)
		}}
	})
}
