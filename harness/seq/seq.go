// Package seq is the sequential history engine: one client thread issues operations one at a time on
// a fresh instance of the real stack (under the scheduler, fixed background policy), every read of
// every live actor is compared with the reference model after every step; histories are enumerated
// exhaustively up to a depth over a per-property alphabet.
package seq

import (
	"bytes"
	"context"
	"fmt"
	"io"
	"sort"
	"strings"

	"github.com/glebziz/fs_db"
	imodel "github.com/glebziz/fs_db/internal/model"
	"github.com/glebziz/fs_db/verifh/dbh"
	"github.com/glebziz/fs_db/verifh/model"
	"github.com/glebziz/fs_db/verifrt/vrt"
)

type Kind int

const (
	Set Kind = iota
	SetReader
	Create
	Delete
	Begin
	Commit
	Rollback
	GC
	Reopen
	Restart // Close, new process, Open
	GetOp   // explicit read through an actor (C13 late reads; reads are otherwise observations)
	GetKeysOp
	GetReaderOp
	HoldReader  // open a reader through an actor and keep it: drained at the end of the history (or before a reopening)
	CreateBegin // Create + the first Write calls; the file stays open
	CreateEnd   // the remaining Write calls + Close of the file CreateBegin (Ref) opened: the write takes effect here
)

var kindNames = [...]string{"Set", "SetReader", "Create", "Delete", "Begin", "Commit", "Rollback", "GC", "Reopen", "Restart", "Get", "GetKeys", "GetReader", "HoldReader", "CreateBegin", "CreateEnd"}

func (k Kind) String() string { return kindNames[k] }

// Unknown is the actor of operations naming a transaction the database never issued.
const Unknown = -2

type Op struct {
	Kind         Kind
	Actor        int // model.Auto, a slot, or Unknown
	Key          string
	Level        model.Level
	Len          int   // content length (0 = default)
	Split        []int // Create: sizes of the Write calls; SetReader: sizes the source reader returns per call
	Paced        bool  // Create: let the storing side drain after every Write (a slow writer)
	DefaultLevel bool  // Begin without a level argument (the documented default, ReadCommitted)
	// IDVar: which transaction an Unknown Commit/Rollback names: 0 a well-formed id never issued, 1 the
	// all-zero id (the store's own name for "no transaction"), 2 no transaction named at all
	IDVar int
	Ref   int // CreateEnd: the step of its CreateBegin (the content carries that step's id)
	// EOFWithData: SetReader's source returns its last bytes together with io.EOF
	EOFWithData bool
}

var idVarNames = [...]string{"never-issued", "all-zero-id", "no-id"}

const DefaultLen = 8

// kq quotes a key for messages; long keys are abbreviated.
func kq(k string) string {
	if len(k) > 48 {
		return fmt.Sprintf("%q…(%d bytes)", k[:16], len(k))
	}
	return fmt.Sprintf("%q", k)
}

func kqs(ks []string) string {
	out := make([]string, len(ks))
	for i, k := range ks {
		out[i] = kq(k)
	}
	return "[" + strings.Join(out, " ") + "]"
}

func (o Op) String() string {
	a := ""
	switch {
	case o.Actor == Unknown:
		a = "T?."
	case o.Actor >= 0:
		a = fmt.Sprintf("T%d.", o.Actor)
	}
	switch o.Kind {
	case Begin:
		if o.DefaultLevel {
			return fmt.Sprintf("T%d=Begin()", o.Actor)
		}
		return fmt.Sprintf("T%d=Begin(%s)", o.Actor, o.Level)
	case HoldReader:
		return fmt.Sprintf("%sHoldReader(%s)", a, kq(o.Key))
	case CreateBegin:
		return fmt.Sprintf("%sCreateBegin(%s)", a, kq(o.Key))
	case CreateEnd:
		return fmt.Sprintf("%sCreateEnd(%s,of step %d)", a, kq(o.Key), o.Ref)
	case Commit, Rollback, GetKeysOp:
		if o.Actor == Unknown && o.Kind != GetKeysOp {
			return a + o.Kind.String() + "(" + idVarNames[o.IDVar] + ")"
		}
		return a + o.Kind.String() + "()"
	case GC, Reopen, Restart:
		return o.Kind.String()
	case Create:
		if o.Paced {
			return fmt.Sprintf("%sCreate(%s,%v,paced)", a, kq(o.Key), o.Split)
		}
		return fmt.Sprintf("%sCreate(%s,%v)", a, kq(o.Key), o.Split)
	case Set, SetReader:
		if o.Kind == SetReader && len(o.Split) > 0 {
			if o.EOFWithData {
				return fmt.Sprintf("%sSetReader(%s,reads=%v,last read returns io.EOF with its bytes)", a, kq(o.Key), o.Split)
			}
			return fmt.Sprintf("%sSetReader(%s,reads=%v)", a, kq(o.Key), o.Split)
		}
		if o.Len != 0 && o.Len != DefaultLen {
			return fmt.Sprintf("%s%s(%s,len=%d)", a, o.Kind, kq(o.Key), o.length())
		}
	}
	return fmt.Sprintf("%s%s(%s)", a, o.Kind, kq(o.Key))
}

func (o Op) length() int {
	switch {
	case o.Kind == Create || (o.Kind == SetReader && len(o.Split) > 0):
		n := 0
		for _, s := range o.Split {
			n += s
		}
		return n
	case o.Len == 0:
		return DefaultLen
	case o.Len < 0:
		return 0 // explicit empty content
	}
	return o.Len
}

func HistoryString(h []Op) []string {
	s := make([]string, len(h))
	for i, o := range h {
		s[i] = o.String()
	}
	return s
}

// Options of a run.
type Options struct {
	Slots     int
	ObsKeys   []string // keys read after every step (include one that is never written)
	Eager     bool     // settle all background work after every step
	Spec      dbh.Spec
	LateObs   bool // also read through finished handles after every step (C13)
	ReaderObs bool // observe through GetReader as well as Get
	MapDesc   bool // instrumented map ranges iterate in descending key order
	// HeldReaders: every collection pass runs while readers are open: before the pass every actor opens a
	// reader on every key it can read, after the pass the readers are drained and must deliver the whole
	// value they were opened on (a read in progress is a read the collector must not change)
	HeldReaders bool
	ObsAutoOnly bool // observe through the autocommit actor only
	NoObs       bool // no observation after steps (the caller observes itself)
	// OpenFn replaces dbh.Open (the gRPC tier starts a server and returns the external client);
	// UnknownCtx builds the context naming a never-issued transaction for that client.
	OpenFn     func(spec dbh.Spec) (*dbh.Inst, error)
	UnknownCtx func(ctx context.Context, txId string) context.Context
	Free       bool                   // run without the scheduler (real goroutines, real time)
	OnStart    func(r *Runner, op Op) // before the operation is issued
	OnAck      func(r *Runner, op Op) // right after the operation returned, before background work settles
	Epilogue   func(r *Runner) *Mismatch
	AfterStep  func(r *Runner, i int, op Op) *Mismatch
}

type Mismatch struct {
	Step int
	Op   string
	What string
	Sig  string
}

func (m *Mismatch) Error() string { return fmt.Sprintf("step %d %s: %s", m.Step, m.Op, m.What) }

type Runner struct {
	Opt   Options
	In    *dbh.Inst
	M     *model.Model
	Tx    []fs_db.Tx
	Lens  map[int]int
	Step  int
	Obs   int64
	FPs   map[uint64]struct{}
	ctx   context.Context
	Ended map[int]string // finished slots: how they ended
	held  []heldReader
	files map[int]fs_db.File // open files of CreateBegin by step
}

type heldReader struct {
	ak, key string
	at      int
	rc      io.ReadCloser
	exp     model.Val
}

// DrainHeld reads the readers HoldReader opened to their end: each must deliver the whole value it was
// opened on, whatever was written, ended or collected since.
func (r *Runner) DrainHeld(op Op) *Mismatch {
	hs := r.held
	r.held = nil
	for _, h := range hs {
		got, err := dbh.ReadAll(h.rc)
		r.Obs++
		want := r.expectBytes(h.exp)
		if err != nil || !bytes.Equal(got, want) {
			d := "error " + dbh.ShortErr(err)
			if err == nil {
				d = dbh.Describe(got, want)
			}
			return r.mism(op, fmt.Sprintf("a reader on %s opened via %s at step %d and drained at the end delivered %s of write #%d's value", kq(h.key), h.ak, h.at, d, h.exp.ID),
				fmt.Sprintf("seq|held-reader@%s|exp=value,obs=%s", h.ak, wordOf(d)))
		}
	}
	return nil
}

// chunkReader hands the content out in reads of prescribed sizes (as a pipe or a multi-reader would).
type chunkReader struct {
	data        []byte
	sizes       []int
	i           int
	eofWithData bool
}

func (c *chunkReader) Read(p []byte) (int, error) {
	if len(c.data) == 0 {
		return 0, io.EOF
	}
	n := len(c.data)
	if c.i < len(c.sizes) && c.sizes[c.i] < n {
		n = c.sizes[c.i]
	}
	c.i++
	if n > len(p) {
		n = len(p)
	}
	if n == 0 {
		return 0, nil
	}
	copy(p, c.data[:n])
	c.data = c.data[n:]
	if c.eofWithData && len(c.data) == 0 {
		return n, io.EOF // the last bytes and the end of the stream in one call (io.Reader allows it)
	}
	return n, nil
}

type plainReader struct{ r io.Reader }

func (p plainReader) Read(b []byte) (int, error) { return p.r.Read(b) }

var unknownTx = "deadbeef-0000-4000-8000-00000000beef"

func (r *Runner) store(actor int) (fs_db.Store, context.Context) {
	switch {
	case actor == model.Auto:
		return r.In.DB, r.ctx
	case actor == Unknown:
		if r.Opt.UnknownCtx != nil {
			return r.In.DB, r.Opt.UnknownCtx(r.ctx, unknownTx)
		}
		return r.In.DB, imodel.StoreTxId(r.ctx, unknownTx)
	}
	return r.Tx[actor], r.ctx
}

// rawTx ends a transaction that no Begin of this history returned.
func (r *Runner) rawTx(commit bool, idVar int) error {
	if r.In.RawTx == nil {
		if commit {
			return fs_db.ErrTxNotFound
		}
		return nil
	}
	switch idVar {
	case 1:
		return r.In.RawTx(commit, imodel.MainTxId, true)
	case 2:
		return r.In.RawTx(commit, "", false)
	}
	return r.In.RawTx(commit, unknownTx, true)
}

func actorKind(m *model.Model, actor int) string {
	switch {
	case actor == model.Auto:
		return "auto"
	case actor == Unknown:
		return "unknown-tx"
	case m.Finished(actor):
		return "finished-tx"
	case m.Txs[actor].State == model.TxOpen:
		return m.Txs[actor].Level.String()
	}
	return "unused"
}

func (r *Runner) mism(op Op, what, sig string) *Mismatch {
	return &Mismatch{Step: r.Step, Op: op.String(), What: what, Sig: sig}
}

// modelActor maps Unknown onto a slot index the model treats as not open.
func modelActor(a int) int {
	if a == Unknown {
		return 1 << 20
	}
	return a
}

// Apply executes one operation on the implementation and the model and compares the result class.
func (r *Runner) Apply(op Op) *Mismatch {
	if r.Opt.OnStart != nil {
		r.Opt.OnStart(r, op)
	}
	m := r.apply(op)
	if m == nil && r.Opt.OnAck != nil {
		r.Opt.OnAck(r, op)
	}
	if m == nil {
		if r.Opt.Eager {
			vrt.Quiesce()
		}
		r.FPs[r.M.Fingerprint()] = struct{}{}
	}
	return m
}

func (r *Runner) apply(op Op) *Mismatch {
	r.Step++
	id := r.Step
	st, ctx := r.store(op.Actor)
	ak := actorKind(r.M, op.Actor)
	cmp := func(got error, exp model.Err) *Mismatch {
		if g := dbh.Class(got); g != exp {
			return r.mism(op, fmt.Sprintf("%s returned %s (%s), model expects %s", op.Kind, g, dbh.ShortErr(got), exp),
				fmt.Sprintf("seq|%s@%s|exp=%s,obs=%s", op.Kind, ak, exp, g))
		}
		return nil
	}
	switch op.Kind {
	case Set, SetReader, Create:
		n := op.length()
		content := dbh.Content(id, n)
		var err error
		switch op.Kind {
		case Set:
			err = st.Set(ctx, op.Key, content)
		case SetReader:
			if len(op.Split) > 0 {
				err = st.SetReader(ctx, op.Key, &chunkReader{data: content, sizes: op.Split, eofWithData: op.EOFWithData})
			} else {
				err = st.SetReader(ctx, op.Key, plainReader{bytes.NewReader(content)})
			}
		case Create:
			var f fs_db.File
			f, err = st.Create(ctx, op.Key)
			if err == nil {
				off := 0
				var scratch []byte // one buffer re-used for every Write and overwritten after it (Write must not retain p)
				for _, s := range op.Split {
					if cap(scratch) < s {
						scratch = make([]byte, s)
					}
					wb := scratch[:s]
					copy(wb, content[off:off+s])
					k, werr := f.Write(wb)
					for i := range wb {
						wb[i] = 0xEE
					}
					if werr != nil {
						err = werr
						break
					}
					if k != s {
						err = io.ErrShortWrite
						break
					}
					off += s
					if op.Paced {
						vrt.Quiesce()
					}
				}
				cerr := f.Close()
				if err == nil {
					err = cerr
				}
			}
		}
		exp := r.M.Write(modelActor(op.Actor), op.Key, id, false)
		r.Lens[id] = n
		if m := cmp(err, exp); m != nil {
			return m
		}
	case Delete:
		err := st.Delete(ctx, op.Key)
		exp := r.M.Write(modelActor(op.Actor), op.Key, id, true)
		if m := cmp(err, exp); m != nil {
			return m
		}
	case Begin:
		var tx fs_db.Tx
		var err error
		if op.DefaultLevel {
			tx, err = r.In.DB.Begin(r.ctx)
		} else {
			tx, err = r.In.DB.Begin(r.ctx, imodel.TxIsoLevel(op.Level))
		}
		if err != nil {
			return r.mism(op, "Begin failed: "+dbh.ShortErr(err), "seq|Begin|exp=nil,obs="+dbh.Class(err).String())
		}
		r.Tx[op.Actor] = tx
		r.M.Begin(op.Actor, op.Level)
	case Commit:
		var err error
		if op.Actor == Unknown {
			err = r.rawTx(true, op.IDVar)
		} else {
			err = r.Tx[op.Actor].Commit(r.ctx)
		}
		exp := r.M.CommitTx(modelActor(op.Actor))
		if op.Actor >= 0 && r.Ended[op.Actor] == "" {
			r.Ended[op.Actor] = "commit:" + exp.String()
		}
		if m := cmp(err, exp); m != nil {
			return m
		}
	case Rollback:
		var err error
		if op.Actor != Unknown {
			err = r.Tx[op.Actor].Rollback(r.ctx)
		} else {
			err = r.rawTx(false, op.IDVar)
		}
		exp := r.M.Rollback(modelActor(op.Actor))
		if op.Actor >= 0 && r.Ended[op.Actor] == "" {
			r.Ended[op.Actor] = "rollback"
		}
		if m := cmp(err, exp); m != nil {
			return m
		}
	case GC:
		type held struct {
			ak, key string
			rc      io.ReadCloser
			exp     model.Val
		}
		var hs []held
		if r.Opt.HeldReaders {
			actors := []int{model.Auto}
			if !r.Opt.ObsAutoOnly {
				actors = append(actors, r.M.OpenSlots()...)
			}
			for _, a := range actors {
				for _, k := range r.Opt.ObsKeys {
					exp, eerr := r.M.Get(a, k)
					if eerr != model.OK {
						continue
					}
					st, ctx := r.store(a)
					rc, err := st.GetReader(ctx, k)
					if err != nil {
						return r.mism(op, fmt.Sprintf("GetReader(%s) via %s before the collection pass failed: %s", kq(k), actorKind(r.M, a), dbh.ShortErr(err)),
							fmt.Sprintf("seq|GetReader@%s|exp=value,obs=%s", actorKind(r.M, a), dbh.Class(err)))
					}
					hs = append(hs, held{actorKind(r.M, a), k, rc, exp})
				}
			}
		}
		if err := dbh.GCOn(r.In); err != nil {
			return r.mism(op, "GC failed: "+dbh.ShortErr(err), "seq|GC|exp=nil,obs=error")
		}
		for _, h := range hs {
			got, err := dbh.ReadAll(h.rc)
			r.Obs++
			want := r.expectBytes(h.exp)
			if err != nil || !bytes.Equal(got, want) {
				d := "error " + dbh.ShortErr(err)
				if err == nil {
					d = dbh.Describe(got, want)
				}
				return r.mism(op, fmt.Sprintf("a reader on %s opened via %s before the collection pass and drained after it delivered %s of write #%d's value", kq(h.key), h.ak, d, h.exp.ID),
					fmt.Sprintf("seq|held-reader@%s|exp=value,obs=%s", h.ak, wordOf(d)))
			}
		}
	case CreateBegin:
		content := dbh.Content(id, 2*DefaultLen)
		f, err := st.Create(ctx, op.Key)
		if err == nil {
			_, err = f.Write(content[:DefaultLen])
		}
		if err != nil {
			return r.mism(op, "Create/Write failed: "+dbh.ShortErr(err), fmt.Sprintf("seq|CreateBegin@%s|exp=nil,obs=%s", ak, dbh.Class(err)))
		}
		if r.files == nil {
			r.files = map[int]fs_db.File{}
		}
		r.files[id] = f
	case CreateEnd:
		f := r.files[op.Ref]
		if f == nil {
			return r.mism(op, "harness: no open file for this CreateEnd", "seq|harness")
		}
		delete(r.files, op.Ref)
		content := dbh.Content(op.Ref, 2*DefaultLen)
		_, err := f.Write(content[DefaultLen:])
		cerr := f.Close()
		if err == nil {
			err = cerr
		}
		exp := r.M.Write(modelActor(op.Actor), op.Key, op.Ref, false)
		r.Lens[op.Ref] = 2 * DefaultLen
		if m := cmp(err, exp); m != nil {
			return m
		}
	case HoldReader:
		a := op.Actor
		if a >= 0 && (a >= len(r.M.Txs) || r.M.Txs[a].State != model.TxOpen) {
			break // that slot holds no open transaction here
		}
		exp, eerr := r.M.Get(modelActor(a), op.Key)
		if eerr != model.OK {
			break // nothing to read
		}
		st, ctx := r.store(a)
		rc, err := st.GetReader(ctx, op.Key)
		if err != nil {
			return r.mism(op, fmt.Sprintf("GetReader(%s) via %s failed: %s", kq(op.Key), actorKind(r.M, a), dbh.ShortErr(err)),
				fmt.Sprintf("seq|GetReader@%s|exp=value,obs=%s", actorKind(r.M, a), dbh.Class(err)))
		}
		r.held = append(r.held, heldReader{actorKind(r.M, a), op.Key, r.Step, rc, exp})
	case Reopen, Restart:
		if m := r.DrainHeld(op); m != nil {
			return m
		}
		if err := r.In.Close(); err != nil {
			return r.mism(op, "Close failed: "+dbh.ShortErr(err), "seq|Close|exp=nil,obs=error")
		}
		if op.Kind == Restart {
			dbh.NewProcess()
		}
		in, err := r.open()
		if err != nil {
			return r.mism(op, "Open failed: "+dbh.ShortErr(err), "seq|Open|exp=nil,obs=error")
		}
		r.In = in
		r.M.Restart()
		for i := range r.Tx {
			r.Tx[i] = nil
		}
		r.Ended = map[int]string{}
	case GetOp:
		if m := r.readKey(op, op.Actor, op.Key); m != nil {
			return m
		}
	case GetReaderOp:
		if m := r.readKeyReader(op, op.Actor, op.Key); m != nil {
			return m
		}
	case GetKeysOp:
		if m := r.readKeys(op, op.Actor); m != nil {
			return m
		}
	}
	return nil
}

func (r *Runner) open() (*dbh.Inst, error) {
	if r.Opt.OpenFn != nil {
		return r.Opt.OpenFn(r.Opt.Spec)
	}
	return dbh.Open(r.Opt.Spec)
}

func (r *Runner) expectBytes(v model.Val) []byte { return dbh.Content(v.ID, r.Lens[v.ID]) }

func (r *Runner) whichVersion(got []byte) string {
	for id, n := range r.Lens {
		if n == len(got) && bytes.Equal(dbh.Content(id, n), got) {
			return fmt.Sprintf("the value of write #%d", id)
		}
	}
	return "no value ever written"
}

func (r *Runner) readKey(op Op, actor int, key string) *Mismatch {
	st, ctx := r.store(actor)
	ak := actorKind(r.M, actor)
	got, err := st.Get(ctx, key)
	r.Obs++
	exp, eerr := r.M.Get(modelActor(actor), key)
	g := dbh.Class(err)
	if g != eerr {
		return r.mism(op, fmt.Sprintf("Get(%s) via %s returned %s (%s), model expects %s", kq(key), ak, g, dbh.ShortErr(err), describeExp(exp, eerr)),
			fmt.Sprintf("seq|Get@%s|exp=%s,obs=%s", ak, expClass(eerr), g))
	}
	if eerr == model.OK {
		want := r.expectBytes(exp)
		if !bytes.Equal(got, want) {
			d := dbh.Describe(got, want)
			w := r.whichVersion(got)
			word := wordOf(d)
			if strings.HasPrefix(w, "the value of write") {
				word = "other-version"
			}
			return r.mism(op, fmt.Sprintf("Get(%s) via %s returned %s of write #%d's value — it is %s", kq(key), ak, d, exp.ID, w),
				fmt.Sprintf("seq|Get@%s|exp=value,obs=%s", ak, word))
		}
	}
	return nil
}

func (r *Runner) readKeyReader(op Op, actor int, key string) *Mismatch {
	st, ctx := r.store(actor)
	ak := actorKind(r.M, actor)
	rc, err := st.GetReader(ctx, key)
	var got []byte
	if err == nil {
		got, err = dbh.ReadAll(rc)
	}
	r.Obs++
	exp, eerr := r.M.Get(modelActor(actor), key)
	g := dbh.Class(err)
	if g != eerr {
		return r.mism(op, fmt.Sprintf("GetReader(%s) via %s returned %s (%s), model expects %s", kq(key), ak, g, dbh.ShortErr(err), describeExp(exp, eerr)),
			fmt.Sprintf("seq|GetReader@%s|exp=%s,obs=%s", ak, expClass(eerr), g))
	}
	if eerr == model.OK {
		want := r.expectBytes(exp)
		if !bytes.Equal(got, want) {
			d := dbh.Describe(got, want)
			return r.mism(op, fmt.Sprintf("GetReader(%s) via %s returned %s of write #%d's value", kq(key), ak, d, exp.ID),
				fmt.Sprintf("seq|GetReader@%s|exp=value,obs=%s", ak, wordOf(d)))
		}
	}
	return nil
}

func (r *Runner) readKeys(op Op, actor int) *Mismatch {
	st, ctx := r.store(actor)
	ak := actorKind(r.M, actor)
	got, err := st.GetKeys(ctx)
	r.Obs++
	exp, eerr := r.M.GetKeys(modelActor(actor))
	g := dbh.Class(err)
	if g != eerr {
		return r.mism(op, fmt.Sprintf("GetKeys via %s returned %s (%s), model expects %s", ak, g, dbh.ShortErr(err), eerr),
			fmt.Sprintf("seq|GetKeys@%s|exp=%s,obs=%s", ak, eerr, g))
	}
	if eerr == model.OK {
		if strings.Join(got, "\x00") != strings.Join(exp, "\x00") {
			kind := "wrong-set"
			switch {
			case !sort.StringsAreSorted(got):
				kind = "unsorted"
			case hasDup(got):
				kind = "duplicates"
			case len(got) < len(exp):
				kind = "missing-key"
			case len(got) > len(exp):
				kind = "extra-key"
			}
			return r.mism(op, fmt.Sprintf("GetKeys via %s returned %s, model expects %s", ak, kqs(got), kqs(exp)),
				fmt.Sprintf("seq|GetKeys@%s|exp=keys,obs=%s", ak, kind))
		}
	}
	return nil
}

func hasDup(s []string) bool {
	for i := 1; i < len(s); i++ {
		if s[i] == s[i-1] {
			return true
		}
	}
	return false
}

func wordOf(d string) string {
	if i := strings.IndexByte(d, '('); i > 0 {
		return d[:i]
	}
	return d
}

func expClass(e model.Err) string {
	if e == model.OK {
		return "value"
	}
	return e.String()
}

func describeExp(v model.Val, e model.Err) string {
	if e == model.OK {
		return fmt.Sprintf("the value of write #%d", v.ID)
	}
	return e.String()
}

// Observe reads every observed key and the key list through every live actor and compares with the model.
func (r *Runner) Observe(after Op) *Mismatch {
	actors := []int{model.Auto}
	if !r.Opt.ObsAutoOnly {
		actors = append(actors, r.M.OpenSlots()...)
	}
	if r.Opt.LateObs {
		for i := range r.M.Txs {
			if r.M.Finished(i) {
				actors = append(actors, i)
			}
		}
	}
	for _, a := range actors {
		for _, k := range r.Opt.ObsKeys {
			if m := r.readKey(after, a, k); m != nil {
				m.What = "after " + after.String() + ": " + m.What
				return m
			}
			if r.Opt.ReaderObs {
				if m := r.readKeyReader(after, a, k); m != nil {
					m.What = "after " + after.String() + ": " + m.What
					return m
				}
			}
		}
		if m := r.readKeys(after, a); m != nil {
			m.What = "after " + after.String() + ": " + m.What
			return m
		}
	}
	return nil
}

// Result of one history.
type Result struct {
	Mismatch *Mismatch
	Steps    int
	Obs      int64
	FPs      map[uint64]struct{}
	Infra    string
}

// Run executes one history on a fresh world. It must be called from a managed main thread.
func Run(opt Options, hist []Op) (res *Result) {
	res = &Result{}
	vrt.MapOrderDesc = opt.MapDesc
	defer func() { vrt.MapOrderDesc = false }()
	vrt.SetBranching(false)
	dbh.FreshWorld()
	r := &Runner{Opt: opt}
	in, err := r.open()
	if err != nil {
		res.Infra = "open: " + err.Error()
		return
	}
	r = &Runner{Opt: opt, In: in, M: model.New(opt.Slots), Tx: make([]fs_db.Tx, opt.Slots), Lens: map[int]int{},
		FPs: map[uint64]struct{}{}, ctx: context.Background(), Ended: map[int]string{}}
	defer func() {
		res.Steps, res.Obs, res.FPs = r.Step, r.Obs, r.FPs
		if r.In != nil {
			r.In.Close()
		}
	}()
	if opt.Eager {
		vrt.Quiesce()
	}
	for i, op := range hist {
		if m := r.Apply(op); m != nil {
			res.Mismatch = m
			return
		}
		if !opt.NoObs {
			if m := r.Observe(op); m != nil {
				res.Mismatch = m
				return
			}
		}
		if opt.AfterStep != nil {
			if m := opt.AfterStep(r, i, op); m != nil {
				res.Mismatch = m
				return
			}
		}
	}
	if m := r.DrainHeld(Op{Kind: HoldReader, Actor: model.Auto}); m != nil {
		res.Mismatch = m
		return
	}
	if opt.Epilogue != nil {
		if m := opt.Epilogue(r); m != nil {
			res.Mismatch = m
			return
		}
	}
	return
}
