package seq

import (
	"encoding/json"
	"fmt"
	"os"
	"os/exec"
	"runtime"
	"sort"
	"sync"
	"time"

	"github.com/glebziz/fs_db/verifh/hk"
	"github.com/glebziz/fs_db/verifh/model"
	"github.com/glebziz/fs_db/verifrt/vrt"
)

// Family is a named (options, alphabet) pair; worker processes rebuild it from its name and params.
type Family struct {
	Opt Options
	// Next lists the operations enabled after hist (m is the model state reached); depthLeft counts the
	// operations still to come including the one being chosen.
	Next func(m *model.Model, hist []Op, depthLeft int) []Op
	// Variants, when set, expands one enumerated history into several concrete ones (e.g. content lengths).
	Variants func(hist []Op) [][]Op
}

var families = map[string]func(params string) *Family{}

func Register(name string, mk func(params string) *Family) { families[name] = mk }

func Lookup(name, params string) *Family {
	mk := families[name]
	if mk == nil {
		panic("seq: unknown family " + name)
	}
	return mk(params)
}

// ModelStep applies op to the model only (used by the walker to know what is enabled next).
func ModelStep(m *model.Model, op Op, id int) {
	switch op.Kind {
	case Set, SetReader, Create:
		m.Write(modelActor(op.Actor), op.Key, id, false)
	case CreateEnd:
		m.Write(modelActor(op.Actor), op.Key, op.Ref, false)
	case Delete:
		m.Write(modelActor(op.Actor), op.Key, id, true)
	case Begin:
		m.Begin(op.Actor, op.Level)
	case Commit:
		m.CommitTx(modelActor(op.Actor))
	case Rollback:
		m.Rollback(modelActor(op.Actor))
	case Reopen, Restart:
		m.Restart()
	}
}

// Walk enumerates all histories of exactly depth operations; visit is called for the leaves whose
// running index is congruent to shard modulo nshards.
func Walk(f *Family, depth, shard, nshards int, visit func(hist []Op) bool) (leaves int64) {
	var idx int64
	var rec func(m *model.Model, hist []Op, left int) bool
	rec = func(m *model.Model, hist []Op, left int) bool {
		if left == 0 {
			mine := idx%int64(nshards) == int64(shard)
			idx++
			if mine {
				return visit(hist)
			}
			return true
		}
		for _, op := range f.Next(m, hist, left) {
			nm := m.Clone()
			ModelStep(nm, op, len(hist)+1)
			if !rec(nm, append(hist[:len(hist):len(hist)], op), left-1) {
				return false
			}
		}
		return true
	}
	rec(model.New(f.Opt.Slots), nil, depth)
	return idx
}

// Job is one shard of one depth level.
type Job struct {
	Family   string `json:"family"`
	Params   string `json:"params"`
	Depth    int    `json:"depth"`
	Shard    int    `json:"shard"`
	NShards  int    `json:"nshards"`
	Eager    bool   `json:"eager"`
	Deadline int64  `json:"deadline"`
	MaxViol  int    `json:"maxviol"`
}

type Viol struct {
	History []string `json:"history"`
	Ops     []Op     `json:"ops"`
	Step    int      `json:"step"`
	What    string   `json:"what"`
	Sig     string   `json:"sig"`
	Eager   bool     `json:"eager"`
	Count   int64    `json:"count"`
}

type Stats struct {
	Histories int64    `json:"histories"`
	Leaves    int64    `json:"leaves"`
	Steps     int64    `json:"steps"`
	Obs       int64    `json:"obs"`
	FPs       []uint64 `json:"fps"`
	Viol      []*Viol  `json:"viol"`
	ViolCount int64    `json:"violcount"`
	Capped    bool     `json:"capped"`
	Infra     string   `json:"infra,omitempty"`
	Sample    []string `json:"sample,omitempty"`
	Seconds   float64  `json:"seconds"`
}

// RunManaged runs body as the managed main thread of one execution (default schedule).
func RunManaged(body func()) string { return runManaged(body) }

func runManaged(body func()) string {
	e := &vrt.Explorer{}
	r := e.RunOnce(nil, false, func() (string, string) { body(); return "", "" })
	return r.Verdict
}

// RunOne executes one history under the scheduler and returns the result (used by workers and for
// confirmation and replay in the parent).
func RunOne(f *Family, hist []Op, eager bool) (*Result, string) {
	opt := f.Opt
	opt.Eager = eager
	var res *Result
	if opt.Free {
		return Run(opt, hist), ""
	}
	v := runManaged(func() { res = Run(opt, hist) })
	return res, v
}

// WorkerMain executes one job and prints its stats as JSON.
func WorkerMain(arg string) {
	var j Job
	if err := json.Unmarshal([]byte(arg), &j); err != nil {
		fmt.Fprintln(os.Stderr, "seqworker:", err)
		os.Exit(3)
	}
	st := RunJob(&j)
	b, _ := json.Marshal(st)
	os.Stdout.Write(b)
	os.Stdout.Write([]byte("\n"))
}

func RunJob(j *Job) *Stats {
	start := time.Now()
	f := Lookup(j.Family, j.Params)
	vrt.Opt = vrt.Options{LongTimer: time.Minute, StepHorizon: 2000000}
	st := &Stats{}
	fps := map[uint64]struct{}{}
	sigs := map[string]*Viol{}
	maxViol := j.MaxViol
	if maxViol == 0 {
		maxViol = 20
	}
	var dl time.Time
	if j.Deadline > 0 {
		dl = time.Unix(0, j.Deadline)
	}
	n := 0
	st.Leaves = Walk(f, j.Depth, j.Shard, j.NShards, func(hist []Op) bool {
		n++
		if !dl.IsZero() && n&15 == 0 && time.Now().After(dl) {
			st.Capped = true
			return false
		}
		hs := [][]Op{hist}
		if f.Variants != nil {
			hs = f.Variants(hist)
		}
		for _, h := range hs {
			res, verdict := RunOne(f, h, j.Eager)
			// an infrastructure failure (a loopback port, a server start under load) is retried: it says
			// nothing about the property and must not end the check
			for try := 0; try < 4 && res != nil && res.Infra != ""; try++ {
				time.Sleep(time.Duration(50<<try) * time.Millisecond)
				res, verdict = RunOne(f, h, j.Eager)
			}
			st.Histories++
			if st.Sample == nil && j.Shard == 0 {
				st.Sample = HistoryString(h)
			}
			if res == nil {
				res = &Result{}
			}
			st.Steps += int64(res.Steps)
			st.Obs += res.Obs
			for fp := range res.FPs {
				fps[fp] = struct{}{}
			}
			if res.Infra != "" {
				st.Infra = res.Infra
				return false
			}
			m := res.Mismatch
			if m == nil && verdict != "" {
				m = &Mismatch{Step: res.Steps, Op: "-", What: verdict, Sig: "seq|scheduler|" + firstWord(verdict)}
			}
			if m != nil {
				st.ViolCount++
				if v, ok := sigs[m.Sig]; ok {
					v.Count++
					if len(h) < len(v.Ops) {
						v.Ops, v.History, v.Step, v.What = h, HistoryString(h), m.Step, m.What
					}
				} else if len(sigs) < maxViol {
					sigs[m.Sig] = &Viol{History: HistoryString(h), Ops: append([]Op(nil), h...), Step: m.Step, What: m.What, Sig: m.Sig, Eager: j.Eager, Count: 1}
				}
			}
		}
		return true
	})
	for fp := range fps {
		st.FPs = append(st.FPs, fp)
	}
	for _, v := range sigs {
		st.Viol = append(st.Viol, v)
	}
	sort.Slice(st.Viol, func(a, b int) bool { return st.Viol[a].Sig < st.Viol[b].Sig })
	st.Seconds = time.Since(start).Seconds()
	return st
}

func firstWord(s string) string {
	for i, c := range s {
		if c == ':' || c == ' ' {
			return s[:i]
		}
	}
	return s
}

// ------------------------------------------------------------------ parent side

type LevelResult struct {
	Depth    int
	Complete bool
	Stats    *Stats
	States   int
	Seconds  float64
}

// RunLevel runs one depth level (both background policies) sharded over processes.
func RunLevel(family, params string, depth int, deadline time.Time, fpAll map[uint64]struct{}) *LevelResult {
	start := time.Now()
	n := runtime.NumCPU()
	exe, _ := os.Executable()
	total := &Stats{}
	var mu sync.Mutex
	var wg sync.WaitGroup
	complete := true
	sem := make(chan struct{}, n)
	policies := []bool{true, false}
	if Lookup(family, params).Opt.Free {
		policies = []bool{true}
	}
	for _, eager := range policies {
		for s := 0; s < n; s++ {
			wg.Add(1)
			sem <- struct{}{}
			go func(s int, eager bool) {
				defer wg.Done()
				defer func() { <-sem }()
				j := Job{Family: family, Params: params, Depth: depth, Shard: s, NShards: n, Eager: eager, Deadline: deadline.UnixNano()}
				b, _ := json.Marshal(j)
				cmd := exec.Command(exe, "seqworker", string(b))
				cmd.Env = append(os.Environ(), "GOMAXPROCS=2")
				cmd.Stderr = os.Stderr
				out, err := cmd.Output()
				var st Stats
				if err == nil {
					err = json.Unmarshal(out, &st)
				}
				mu.Lock()
				defer mu.Unlock()
				if err != nil {
					total.Infra = "seqworker: " + err.Error()
					complete = false
					return
				}
				if st.Infra != "" {
					total.Infra = st.Infra
				}
				if st.Capped {
					complete = false
				}
				total.Histories += st.Histories
				if eager {
					total.Leaves += st.Leaves / int64(1) * 0 // leaves are counted once below
				}
				total.Steps += st.Steps
				total.Obs += st.Obs
				total.ViolCount += st.ViolCount
				for _, fp := range st.FPs {
					fpAll[fp] = struct{}{}
				}
				if total.Sample == nil && st.Sample != nil {
					total.Sample = st.Sample
				}
				total.Viol = mergeViol(total.Viol, st.Viol)
				if s == 0 && eager {
					total.Leaves = st.Leaves
				}
			}(s, eager)
		}
	}
	wg.Wait()
	return &LevelResult{Depth: depth, Complete: complete, Stats: total, States: len(fpAll), Seconds: time.Since(start).Seconds()}
}

func mergeViol(a, b []*Viol) []*Viol {
	idx := map[string]*Viol{}
	for _, v := range a {
		idx[v.Sig] = v
	}
	for _, v := range b {
		if old, ok := idx[v.Sig]; ok {
			old.Count += v.Count
			if len(v.Ops) < len(old.Ops) {
				old.Ops, old.History, old.Step, old.What, old.Eager = v.Ops, v.History, v.Step, v.What, v.Eager
			}
			continue
		}
		idx[v.Sig] = v
		a = append(a, v)
	}
	return a
}

// Plan is one family to enumerate from depth From to depth To (iterative deepening).
type Plan struct {
	Family string
	Params string
	From   int
	To     int
}

type Summary struct {
	Histories, Steps, Obs int64
	States                int
	Samples               []any
	AllComplete           bool
	Depths                map[string]int
	ViolCount             int64
}

// RunPlans enumerates every plan level by level until its target depth or the budget ends; violations
// are confirmed by re-running the history and handed to the reporter.
func RunPlans(rp *hk.Reporter, plans []Plan, budget *hk.Budget, verbose bool) *Summary {
	sum := &Summary{AllComplete: true, Depths: map[string]int{}}
	fpAll := map[uint64]struct{}{}
	maxTo := 0
	for _, p := range plans {
		if p.To > maxTo {
			maxTo = p.To
		}
	}
	lastSecs := map[int]float64{}
	lastHist := map[int]int64{}
	ratio := map[int]float64{}
	stopped := map[int]bool{}
	for d := 1; d <= maxTo; d++ {
		for i, p := range plans {
			if d < p.From || d > p.To || stopped[i] {
				continue
			}
			label := p.Family
			if p.Params != "" {
				label += "(" + p.Params + ")"
			}
			// do not start a level that cannot finish: estimate from the previous level
			if s, ok := lastSecs[i]; ok {
				r := ratio[i]
				if r == 0 {
					r = 10
				}
				if est := s * r; time.Duration(est*float64(time.Second)) > budget.Left() {
					sum.AllComplete = false
					stopped[i] = true
					if verbose {
						fmt.Printf("  %-40s depth %d skipped: estimated %.0fs exceeds the remaining budget\n", label, d, est)
					}
					continue
				}
			}
			if budget.Expired() {
				sum.AllComplete = false
				stopped[i] = true
				continue
			}
			lr := RunLevel(p.Family, p.Params, d, budget.Deadline(), fpAll)
			st := lr.Stats
			if st.Infra != "" {
				fmt.Fprintf(os.Stderr, "verifh: infrastructure error in %s depth %d: %s\n", label, d, st.Infra)
				os.Exit(3)
			}
			sum.Histories += st.Histories
			sum.Steps += st.Steps
			sum.Obs += st.Obs
			sum.ViolCount += st.ViolCount
			sum.States = len(fpAll)
			if lr.Complete {
				sum.Depths[label] = d
			} else {
				sum.AllComplete = false
				stopped[i] = true
			}
			if h := lastHist[i]; h > 0 && st.Histories > 0 {
				ratio[i] = float64(st.Histories) / float64(h) * 1.2
			}
			lastSecs[i], lastHist[i] = lr.Seconds, st.Histories
			if verbose {
				fmt.Printf("  %-40s depth %d: %9d histories %10d steps %10d reads  %6d model states  %5d mismatching  %.1fs complete=%v\n",
					label, d, st.Histories, st.Steps, st.Obs, lr.States, st.ViolCount, lr.Seconds, lr.Complete)
			}
			if len(sum.Samples) < 30 {
				sum.Samples = append(sum.Samples, map[string]any{"family": label, "depth": d, "histories": st.Histories,
					"complete": lr.Complete, "example_history": st.Sample})
			}
			newViol := false
			f := Lookup(p.Family, p.Params)
			for _, v := range st.Viol {
				// confirm: the same history must fail the same way again (three times)
				ok := true
				var last *Result
				for k := 0; k < 3 && ok; k++ {
					res, verdict := RunOne(f, v.Ops, v.Eager)
					if res == nil {
						res = &Result{} // the execution ended in a scheduler verdict (a panic in the code under test)
					}
					last = res
					m := res.Mismatch
					if m == nil && verdict != "" {
						m = &Mismatch{Sig: "seq|scheduler|" + firstWord(verdict), What: verdict}
					}
					if m == nil || m.Sig != v.Sig {
						ok = false
					}
				}
				_ = last
				if !ok {
					fmt.Fprintf(os.Stderr, "verifh: history %v did not reproduce (%s: %s); not reported\n", v.History, v.Sig, v.What)
					sum.AllComplete = false
					continue
				}
				r := &hk.Replay{Engine: "seq", Scenario: p.Family, Params: p.Params, History: v.History, Verdict: v.What, Sig: v.Sig,
					Extra: map[string]any{"ops": v.Ops, "eager": v.Eager, "step": v.Step}}
				if rp.Report(r) {
					newViol = true
				}
			}
			if newViol {
				stopped[i] = true
			}
		}
	}
	return sum
}

func (s *Summary) Coverage(rule string) map[string]any {
	return map[string]any{
		"states":                        s.States,
		"transitions":                   s.Steps,
		"traces_validated_against_impl": s.Histories,
		"evaluations":                   s.Histories,
		"distinct_nontrivial":           s.States,
		"reads_compared":                s.Obs,
		"rule":                          rule,
		"samples":                       s.Samples,
		"exhaustive":                    s.AllComplete,
		"completed_depth":               s.Depths,
		"mismatching_histories":         s.ViolCount,
	}
}

// ReplayFile re-runs the history of a replay file.
func ReplayFile(r *hk.Replay) int {
	f := Lookup(r.Scenario, r.Params)
	ex, _ := r.Extra.(map[string]any)
	b, _ := json.Marshal(ex["ops"])
	var ops []Op
	if err := json.Unmarshal(b, &ops); err != nil {
		fmt.Fprintln(os.Stderr, "replay:", err)
		return 2
	}
	eager, _ := ex["eager"].(bool)
	res, verdict := RunOne(f, ops, eager)
	fmt.Println("history:", HistoryString(ops))
	if res == nil {
		res = &Result{}
	}
	if res.Mismatch != nil {
		fmt.Println("mismatch:", res.Mismatch.Error())
		fmt.Printf("VIOLATION property=%s replay=(replayed)\n", r.Property)
		return 1
	}
	if verdict != "" {
		fmt.Println("scheduler verdict:", verdict)
		return 1
	}
	fmt.Println("no mismatch")
	return 0
}
