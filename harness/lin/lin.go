// Package lin checks recorded call/return histories of concurrent client programs for
// linearizability against the sequential reference model, by exhaustive search over the orders
// compatible with real time (memoised on the set of linearised operations and the model state).
package lin

import (
	"fmt"
	"sort"
	"strings"

	"github.com/glebziz/fs_db/verifh/model"
)

type Kind int

const (
	Set Kind = iota
	Delete
	Get
	GetKeys
	Begin
	Commit
	Rollback
)

var kindNames = [...]string{"Set", "Delete", "Get", "GetKeys", "Begin", "Commit", "Rollback"}

func (k Kind) String() string { return kindNames[k] }

// Op is one completed operation with what it returned.
type Op struct {
	Call, Ret int64
	Thread    int
	Kind      Kind
	Actor     int // model.Auto or transaction slot
	Key       string
	ValID     int // Set: id of the value written
	Level     model.Level

	ObsErr  model.Err
	ObsVal  int      // Get: id of the value read (when ObsErr == OK)
	ObsKeys []string // GetKeys
}

func (o Op) String() string {
	a := ""
	if o.Actor >= 0 {
		a = fmt.Sprintf("T%d.", o.Actor)
	}
	res := o.ObsErr.String()
	switch o.Kind {
	case Get:
		if o.ObsErr == model.OK {
			res = fmt.Sprintf("#%d", o.ObsVal)
		}
		return fmt.Sprintf("[%d,%d] th%d %sGet(%s)=%s", o.Call, o.Ret, o.Thread, a, o.Key, res)
	case GetKeys:
		if o.ObsErr == model.OK {
			res = "{" + strings.Join(o.ObsKeys, ",") + "}"
		}
		return fmt.Sprintf("[%d,%d] th%d %sGetKeys()=%s", o.Call, o.Ret, o.Thread, a, res)
	case Set:
		return fmt.Sprintf("[%d,%d] th%d %sSet(%s,#%d)=%s", o.Call, o.Ret, o.Thread, a, o.Key, o.ValID, res)
	case Delete:
		return fmt.Sprintf("[%d,%d] th%d %sDelete(%s)=%s", o.Call, o.Ret, o.Thread, a, o.Key, res)
	case Begin:
		return fmt.Sprintf("[%d,%d] th%d T%d=Begin(%s)=%s", o.Call, o.Ret, o.Thread, o.Actor, o.Level, res)
	}
	return fmt.Sprintf("[%d,%d] th%d %s%s()=%s", o.Call, o.Ret, o.Thread, a, o.Kind, res)
}

// step applies op to m and reports whether the model's answer equals the observed one.
func step(m *model.Model, o *Op) bool {
	switch o.Kind {
	case Set:
		return m.Write(o.Actor, o.Key, o.ValID, false) == o.ObsErr
	case Delete:
		return m.Write(o.Actor, o.Key, o.ValID, true) == o.ObsErr
	case Get:
		v, e := m.Get(o.Actor, o.Key)
		if e != o.ObsErr {
			return false
		}
		return e != model.OK || v.ID == o.ObsVal
	case GetKeys:
		ks, e := m.GetKeys(o.Actor)
		if e != o.ObsErr {
			return false
		}
		return e != model.OK || strings.Join(ks, "\x00") == strings.Join(o.ObsKeys, "\x00")
	case Begin:
		if o.ObsErr != model.OK {
			return false
		}
		m.Begin(o.Actor, o.Level)
		return true
	case Commit:
		return m.CommitTx(o.Actor) == o.ObsErr
	case Rollback:
		return m.Rollback(o.Actor) == o.ObsErr
	}
	return false
}

type memoKey struct {
	done uint64
	fp   uint64
}

// Check searches for a linearisation. It returns ok, and on failure the longest prefix of a
// linearisation it could build plus the operations that could not be placed.
func Check(ops []Op, slots int) (ok bool, explain string) {
	n := len(ops)
	if n > 62 {
		return true, "history too long for the checker"
	}
	sort.SliceStable(ops, func(i, j int) bool { return ops[i].Call < ops[j].Call })
	seen := map[memoKey]bool{}
	var best []int
	var cur []int
	full := uint64(1)<<uint(n) - 1
	var rec func(done uint64, m *model.Model) bool
	rec = func(done uint64, m *model.Model) bool {
		if done == full {
			return true
		}
		k := memoKey{done, m.Fingerprint() ^ uint64(m.Clock)<<1}
		if seen[k] {
			return false
		}
		seen[k] = true
		// an operation is minimal if no other pending operation returned before it was called
		minRet := int64(1) << 62
		for i := 0; i < n; i++ {
			if done&(1<<uint(i)) == 0 && ops[i].Ret < minRet {
				minRet = ops[i].Ret
			}
		}
		for i := 0; i < n; i++ {
			if done&(1<<uint(i)) != 0 || ops[i].Call > minRet {
				continue
			}
			nm := m.Clone()
			if !step(nm, &ops[i]) {
				continue
			}
			cur = append(cur, i)
			if len(cur) > len(best) {
				best = append(best[:0], cur...)
			}
			if rec(done|1<<uint(i), nm) {
				return true
			}
			cur = cur[:len(cur)-1]
		}
		return false
	}
	if rec(0, model.New(slots)) {
		return true, ""
	}
	var b strings.Builder
	b.WriteString("no linearisation; longest consistent prefix: ")
	placed := map[int]bool{}
	for _, i := range best {
		placed[i] = true
		b.WriteString(ops[i].String() + "; ")
	}
	b.WriteString(" — cannot place: ")
	for i := range ops {
		if !placed[i] {
			b.WriteString(ops[i].String() + "; ")
		}
	}
	return false, b.String()
}
