// Package hk holds what every check shares: evidence files, the known-findings list, replay files,
// time budgets and the VIOLATION / KNOWN-FINDING output protocol.
package hk

import (
	"bufio"
	"crypto/sha256"
	"encoding/hex"
	"encoding/json"
	"fmt"
	"os"
	"path/filepath"
	"sort"
	"strconv"
	"strings"
	"sync"
	"time"
)

// VerifDir is /verif (overridable for tests).
var VerifDir = envOr("VERIF_DIR", "/verif")

func envOr(k, d string) string {
	if v := os.Getenv(k); v != "" {
		return v
	}
	return d
}

func Seed() int {
	n, _ := strconv.Atoi(os.Getenv("VERIF_SEED"))
	return n
}

// ------------------------------------------------------------------ evidence

type Evidence struct {
	PropertyID  string         `json:"property_id"`
	Tier        string         `json:"tier"`
	Seed        int            `json:"seed"`
	Level       string         `json:"level"`
	Coverage    map[string]any `json:"coverage"`
	Assumptions []string       `json:"assumptions,omitempty"`
	WallS       float64        `json:"wall_s"`
	Violations  int            `json:"violations"`
}

// OutDir is where evidence and replay files go (the mutant self-test redirects it).
var OutDir = envOr("VERIF_OUT_DIR", VerifDir)

func (e *Evidence) Write() error {
	dir := filepath.Join(OutDir, "evidence")
	if err := os.MkdirAll(dir, 0o755); err != nil {
		return err
	}
	b, err := json.MarshalIndent(e, "", " ")
	if err != nil {
		return err
	}
	tmp := filepath.Join(dir, "."+e.PropertyID+".json.tmp")
	if err := os.WriteFile(tmp, append(b, '\n'), 0o644); err != nil {
		return err
	}
	return os.Rename(tmp, filepath.Join(dir, e.PropertyID+".json"))
}

// ------------------------------------------------------------------ known findings

type Finding struct {
	Status   string // open | fixed
	Property string
	Sig      string
	Text     string
	hit      bool
}

type Findings struct {
	mu   sync.Mutex
	list []*Finding
}

// LoadFindings reads /verif/known_findings.txt. Lines:
//
//	open: property=<id> sig=<signature> <what fails>
//	fixed: property=<id> <commit> <what failed>
func LoadFindings() *Findings {
	fs := &Findings{}
	f, err := os.Open(filepath.Join(VerifDir, "known_findings.txt"))
	if err != nil {
		return fs
	}
	defer f.Close()
	sc := bufio.NewScanner(f)
	sc.Buffer(make([]byte, 1<<20), 1<<20)
	for sc.Scan() {
		ln := strings.TrimSpace(sc.Text())
		if ln == "" || strings.HasPrefix(ln, "#") {
			continue
		}
		switch {
		case strings.HasPrefix(ln, "open:"):
			fl := strings.Fields(strings.TrimSpace(strings.TrimPrefix(ln, "open:")))
			fd := &Finding{Status: "open"}
			rest := []string{}
			for _, w := range fl {
				switch {
				case strings.HasPrefix(w, "property=") && fd.Property == "":
					fd.Property = strings.TrimPrefix(w, "property=")
				case strings.HasPrefix(w, "sig=") && fd.Sig == "":
					fd.Sig = strings.TrimPrefix(w, "sig=")
				default:
					rest = append(rest, w)
				}
			}
			fd.Text = strings.Join(rest, " ")
			fs.list = append(fs.list, fd)
		case strings.HasPrefix(ln, "fixed:"):
			fs.list = append(fs.list, &Finding{Status: "fixed", Text: ln})
		}
	}
	return fs
}

// Match reports whether an open finding of the property explains a violation signature. A signature
// is "scope|kind|site1&site2…"; an entry explains it when scope and kind are equal and every site of
// the entry occurs among the violation's sites (entries without sites: the first two parts decide).
func (fs *Findings) Match(property, sig string) *Finding {
	fs.mu.Lock()
	defer fs.mu.Unlock()
	for _, f := range fs.list {
		if f.Status != "open" || f.Property != property {
			continue
		}
		if sigMatch(f.Sig, sig) {
			f.hit = true
			return f
		}
	}
	return nil
}

func sigMatch(entry, got string) bool {
	if entry == got {
		return true
	}
	ep, gp := strings.Split(entry, "|"), strings.Split(got, "|")
	if len(ep) < 2 || len(gp) < 2 || ep[1] != gp[1] {
		return false
	}
	if ep[0] != gp[0] && !(strings.HasSuffix(ep[0], "*") && strings.HasPrefix(gp[0], strings.TrimSuffix(ep[0], "*"))) {
		return false
	}
	if len(ep) < 3 || ep[2] == "" {
		return true
	}
	if len(gp) < 3 {
		return false
	}
	have := map[string]bool{}
	for _, s := range strings.Split(gp[2], "&") {
		have[s] = true
	}
	for _, s := range strings.Split(ep[2], "&") {
		if !have[s] {
			return false
		}
	}
	return true
}

// PrintHits prints one KNOWN-FINDING line per open finding of the property that was hit.
func (fs *Findings) PrintHits(property string) int {
	n := 0
	for _, f := range fs.list {
		if f.Status == "open" && f.Property == property && f.hit {
			fmt.Printf("KNOWN-FINDING: property=%s %s [sig=%s]\n", property, f.Text, f.Sig)
			n++
		}
	}
	return n
}

// ------------------------------------------------------------------ replay files and violations

type Replay struct {
	Property string   `json:"property"`
	Engine   string   `json:"engine"`
	Scenario string   `json:"scenario"`
	Params   string   `json:"params,omitempty"`
	Bound    int      `json:"bound,omitempty"`
	Choices  []int    `json:"choices,omitempty"`
	History  []string `json:"history,omitempty"`
	Verdict  string   `json:"verdict"`
	Sig      string   `json:"signature"`
	Trace    []string `json:"trace,omitempty"`
	Extra    any      `json:"extra,omitempty"`
}

func WriteReplay(r *Replay) string {
	dir := filepath.Join(OutDir, "replays")
	_ = os.MkdirAll(dir, 0o755)
	b, _ := json.MarshalIndent(r, "", " ")
	h := sha256.Sum256(b)
	p := filepath.Join(dir, fmt.Sprintf("%s-%s.json", r.Property, hex.EncodeToString(h[:6])))
	_ = os.WriteFile(p, append(b, '\n'), 0o644)
	return p
}

func ReadReplay(path string) (*Replay, error) {
	b, err := os.ReadFile(path)
	if err != nil {
		return nil, err
	}
	var r Replay
	if err := json.Unmarshal(b, &r); err != nil {
		return nil, err
	}
	return &r, nil
}

// Reporter collects the verdicts of one check run.
type Reporter struct {
	Property   string
	Findings   *Findings
	mu         sync.Mutex
	violations int
	known      int
	seen       map[string]bool
}

func NewReporter(property string) *Reporter {
	return &Reporter{Property: property, Findings: LoadFindings(), seen: map[string]bool{}}
}

// Report handles one confirmed violation: explained by an open known finding, or a VIOLATION line.
// Returns true if it counts as a new violation.
func (rp *Reporter) Report(r *Replay) bool {
	rp.mu.Lock()
	defer rp.mu.Unlock()
	r.Property = rp.Property
	if f := rp.Findings.Match(rp.Property, r.Sig); f != nil {
		rp.known++
		return false
	}
	if rp.seen[r.Sig] {
		rp.violations++
		return true
	}
	rp.seen[r.Sig] = true
	rp.violations++
	p := WriteReplay(r)
	fmt.Printf("VIOLATION property=%s replay=%s\n", rp.Property, p)
	fmt.Printf("  signature: %s\n  verdict: %s\n", r.Sig, firstLine(r.Verdict))
	return true
}

func firstLine(s string) string {
	if i := strings.IndexByte(s, '\n'); i >= 0 {
		return s[:i]
	}
	return s
}

func (rp *Reporter) Violations() int { return rp.violations }
func (rp *Reporter) Known() int      { return rp.known }

// Finish prints the KNOWN-FINDING lines and returns the process exit code.
func (rp *Reporter) Finish() int {
	rp.Findings.PrintHits(rp.Property)
	if rp.violations > 0 {
		return 1
	}
	return 0
}

// ------------------------------------------------------------------ budgets

type Budget struct {
	start    time.Time
	deadline time.Time
}

func NewBudget(d time.Duration) *Budget {
	now := time.Now()
	return &Budget{start: now, deadline: now.Add(d)}
}
func (b *Budget) Expired() bool       { return time.Now().After(b.deadline) }
func (b *Budget) Deadline() time.Time { return b.deadline }
func (b *Budget) Elapsed() float64    { return time.Since(b.start).Seconds() }
func (b *Budget) Left() time.Duration { return time.Until(b.deadline) }

// SortedKeys returns the keys of a count map in order.
func SortedKeys(m map[string]int64) []string {
	ks := make([]string, 0, len(m))
	for k := range m {
		ks = append(ks, k)
	}
	sort.Strings(ks)
	return ks
}
