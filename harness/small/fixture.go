package small

import (
	"archive/tar"
	"bytes"
	"context"
	"fmt"
	"io"
	"os"
	"path/filepath"
	"sort"
	"strings"

	"github.com/glebziz/fs_db/verifh/dbh"
	"github.com/glebziz/fs_db/verifh/enum"
)

var fixtureSpec = dbh.Spec{Name: "fixture", Roots: 1, MaxDirCount: 100, Workers: 1}

// MakeFixture writes the fixture database with whatever tree this binary was built from (it is run once
// against the pinned revision) and packs Base()/fixture into a tar file. Paths inside the database are
// absolute, so the fixture is always unpacked at the same place (FixtureBase).
const FixtureBase = "/dev/shm/verif-fixture-base"

func MakeFixture(tarPath string) error {
	os.RemoveAll(FixtureBase)
	restore := dbh.SwapBase(FixtureBase)
	defer restore()
	os.MkdirAll(FixtureBase, 0o755)
	in, err := dbh.OpenReal(fixtureSpec)
	if err != nil {
		return err
	}
	ctx := context.Background()
	for _, k := range FixtureKeys {
		if err := in.DB.Set(ctx, k.Key, dbh.Content(k.ID, k.Len)); err != nil {
			return err
		}
	}
	// an overwritten key, a deleted key, a committed and an abandoned transaction: records of every kind
	if err := in.DB.Set(ctx, "a", dbh.Content(7001, 8)); err != nil {
		return err
	}
	in.DB.Set(ctx, "gone", dbh.Content(7099, 8))
	in.DB.Delete(ctx, "gone")
	tx, err := in.DB.Begin(ctx)
	if err != nil {
		return err
	}
	tx.Set(ctx, "tx-committed", dbh.Content(7006, 8))
	if err := tx.Commit(ctx); err != nil {
		return err
	}
	tx2, _ := in.DB.Begin(ctx)
	tx2.Set(ctx, "tx-abandoned", dbh.Content(7098, 8))
	if err := in.Close(); err != nil {
		return err
	}
	f, err := os.Create(tarPath)
	if err != nil {
		return err
	}
	defer f.Close()
	tw := tar.NewWriter(f)
	err = filepath.Walk(FixtureBase, func(p string, info os.FileInfo, err error) error {
		if err != nil {
			return err
		}
		rel, _ := filepath.Rel(FixtureBase, p)
		if rel == "." {
			return nil
		}
		h, _ := tar.FileInfoHeader(info, "")
		h.Name = rel
		if err := tw.WriteHeader(h); err != nil {
			return err
		}
		if info.Mode().IsRegular() {
			b, err := os.ReadFile(p)
			if err != nil {
				return err
			}
			_, err = tw.Write(b)
			return err
		}
		return nil
	})
	if err != nil {
		return err
	}
	return tw.Close()
}

func unpack(tarPath, dst string) error {
	f, err := os.Open(tarPath)
	if err != nil {
		return err
	}
	defer f.Close()
	tr := tar.NewReader(f)
	for {
		h, err := tr.Next()
		if err == io.EOF {
			return nil
		}
		if err != nil {
			return err
		}
		p := filepath.Join(dst, h.Name)
		if h.FileInfo().IsDir() {
			os.MkdirAll(p, 0o755)
			continue
		}
		os.MkdirAll(filepath.Dir(p), 0o755)
		b, _ := io.ReadAll(tr)
		if err := os.WriteFile(p, b, 0o644); err != nil {
			return err
		}
	}
}

func init() {
	// codec-fixture: a database directory written by the pinned revision (real Badger engine, public API)
	// is opened by the current tree and must serve exactly its recorded contents.
	enum.Register("codec-fixture", func(string) *enum.Family {
		return &enum.Family{
			Count:    func() int64 { return 1 },
			Describe: func(int64) any { return "fixtures/pinned_db.tar written by revision 42f3f3c" },
			Run: func(int64) *enum.Outcome {
				o := &enum.Outcome{Steps: 1, States: []uint64{1 << 50}}
				tarPath := filepath.Join(os.Getenv("VERIF_DIR"), "fixtures", "pinned_db.tar")
				if os.Getenv("VERIF_DIR") == "" {
					tarPath = "/verif/fixtures/pinned_db.tar"
				}
				if _, err := os.Stat(tarPath); err != nil {
					o.Infra = "fixture missing: " + err.Error()
					return o
				}
				// one worker at a time may use the fixed location
				lock, err := os.OpenFile(FixtureBase+".lock", os.O_CREATE|os.O_RDWR, 0o644)
				if err != nil {
					o.Infra = err.Error()
					return o
				}
				defer lock.Close()
				os.RemoveAll(FixtureBase)
				if err := unpack(tarPath, FixtureBase); err != nil {
					o.Infra = "unpack: " + err.Error()
					return o
				}
				defer os.RemoveAll(FixtureBase)
				restore := dbh.SwapBase(FixtureBase)
				defer restore()
				dbh.NewProcess()
				in, err := dbh.OpenReal(fixtureSpec)
				if err != nil {
					o.Mismatch = cm("fixture cannot be opened by the current tree: %v", err)
					return o
				}
				defer in.Close()
				ctx := context.Background()
				want := []string{}
				for _, k := range FixtureKeys {
					want = append(want, k.Key)
					b, err := in.DB.Get(ctx, k.Key)
					o.Checks++
					if err != nil || !bytes.Equal(b, dbh.Content(k.ID, k.Len)) {
						o.Mismatch = cm("fixture key %q reads %d bytes / %v, want the %d bytes the pinned revision stored", k.Key, len(b), err, k.Len)
						return o
					}
				}
				want = append(want, "tx-committed")
				sort.Strings(want)
				keys, err := in.DB.GetKeys(ctx)
				o.Checks++
				if err != nil || strings.Join(keys, "\x00") != strings.Join(want, "\x00") {
					o.Mismatch = cm("fixture keys are %q (%v), want %q", keys, err, want)
					return o
				}
				if b, err := in.DB.Get(ctx, "tx-committed"); err != nil || !bytes.Equal(b, dbh.Content(7006, 8)) {
					o.Mismatch = cm("fixture key tx-committed reads %v / %v", b, err)
				}
				return o
			},
		}
	})
}

var _ = fmt.Sprint
