// Package small holds the bounded-exhaustive input enumerations of C18 (version lists), C19 (record
// codec) and C20 (configuration), each against a small independent reference.
package small

import (
	"fmt"
	"strconv"
	"strings"

	"github.com/glebziz/fs_db/internal/model"
	"github.com/glebziz/fs_db/internal/model/core"
	"github.com/glebziz/fs_db/internal/model/sequence"
	"github.com/glebziz/fs_db/verifh/enum"
)

// ---------------------------------------------------------------- reference: a plain slice

type refList struct{ seqs []uint64 }

func (r *refList) lastBefore(p uint64) uint64 {
	var out uint64
	for _, s := range r.seqs {
		if s < p {
			out = s
		}
	}
	return out
}

func (r *refList) latest() uint64 {
	if len(r.seqs) == 0 {
		return 0
	}
	return r.seqs[len(r.seqs)-1]
}

// collectible: versions that have a successor not newer than the horizon.
func (r *refList) collectible(h uint64) []uint64 {
	var out []uint64
	for i := 0; i+1 < len(r.seqs); i++ {
		if r.seqs[i+1] <= h {
			out = append(out, r.seqs[i])
		}
	}
	return out
}

func (r *refList) has(s uint64) bool {
	for _, x := range r.seqs {
		if x == s {
			return true
		}
	}
	return false
}

// ---------------------------------------------------------------- implementation under test

const listKey = "k"

type implList struct {
	tx *core.Transaction
}

func newImpl(withoutSearch bool) *implList {
	return &implList{tx: &core.Transaction{WithoutSearch: withoutSearch}}
}

func (l *implList) push(s uint64) {
	n := new(core.Node[model.File]).SetV(model.File{Key: listKey, Seq: sequence.Seq(s), ContentId: strconv.FormatUint(s, 10)})
	l.tx.PushBack(n)
}

func mm(what string, args ...any) *enum.Mismatch {
	w := strings.SplitN(what, " ", 2)[0]
	if i := strings.IndexByte(w, '('); i > 0 {
		w = w[:i]
	}
	return &enum.Mismatch{What: fmt.Sprintf(what, args...), Sig: "list|" + w}
}

// compare checks every lookup of impl against ref for all probes in [0, maxProbe].
func compare(l *implList, r *refList, maxProbe uint64, search bool, ctx string, checks *int64) *enum.Mismatch {
	f := l.tx.File(listKey)
	if got := uint64(f.Latest().Seq); got != r.latest() {
		return mm("Latest returned %d, want %d (%s, list %v)", got, r.latest(), ctx, r.seqs)
	}
	*checks++
	if search {
		for p := uint64(0); p <= maxProbe; p++ {
			*checks++
			if got := uint64(f.LastBefore(sequence.Seq(p)).Seq); got != r.lastBefore(p) {
				return mm("LastBefore(%d) returned %d, want %d (%s, list %v)", p, got, r.lastBefore(p), ctx, r.seqs)
			}
		}
	}
	for h := uint64(0); h <= maxProbe; h++ {
		*checks++
		var got []uint64
		for v := range f.IterateBeforeSeq(sequence.Seq(h)) {
			got = append(got, uint64(v.Seq))
		}
		want := r.collectible(h)
		if fmt.Sprint(got) != fmt.Sprint(want) {
			return mm("IterateBeforeSeq(%d) yielded %v, want %v (%s, list %v)", h, got, want, ctx, r.seqs)
		}
	}
	return nil
}

// collect runs the production pattern (pop the front inside the iteration) and the reference.
func collect(l *implList, r *refList, h uint64) *enum.Mismatch {
	f := l.tx.File(listKey)
	var got []uint64
	for v := range f.IterateBeforeSeq(sequence.Seq(h)) {
		got = append(got, uint64(v.Seq))
		n := f.PopFront()
		if n == nil || uint64(n.V().Seq) != uint64(v.Seq) {
			return mm("collect(%d) popped %v while iterating %d (list %v)", h, n.V().Seq, v.Seq, r.seqs)
		}
	}
	want := r.collectible(h)
	if fmt.Sprint(got) != fmt.Sprint(want) {
		return mm("collect(%d) removed %v, want %v (list %v)", h, got, want, r.seqs)
	}
	r.seqs = append([]uint64(nil), r.seqs[len(want):]...)
	return nil
}

func init() {
	// list-subsets: every subset of a 12-element sequence domain as a version list; all lookups at all
	// probe points; then, for every horizon, the production collect pattern on a fresh copy followed by
	// all lookups again (lookups at or after the horizon must be unchanged).
	enum.Register("list-subsets", func(p string) *enum.Family {
		const n = 12
		domain := make([]uint64, n)
		for i := range domain {
			domain[i] = uint64(2*i + 2) // 2,4,…,24: probes fall on and between version numbers
		}
		maxProbe := uint64(2*n + 3)
		return &enum.Family{
			Count:    func() int64 { return 1 << n },
			Describe: func(i int64) any { return map[string]any{"subset_mask": i} },
			Run: func(i int64) *enum.Outcome {
				o := &enum.Outcome{States: []uint64{uint64(i)}}
				var seqs []uint64
				for b := 0; b < n; b++ {
					if i&(1<<b) != 0 {
						seqs = append(seqs, domain[b])
					}
				}
				for _, search := range []bool{true, false} {
					l := newImpl(!search)
					r := &refList{}
					for _, s := range seqs {
						l.push(s)
						r.seqs = append(r.seqs, s)
						o.Steps++
					}
					if len(seqs) == 0 {
						continue
					}
					if m := compare(l, r, maxProbe, search, "after pushes", &o.Checks); m != nil {
						o.Mismatch = m
						return o
					}
					for h := uint64(0); h <= maxProbe; h++ {
						l2 := newImpl(!search)
						r2 := &refList{}
						for _, s := range seqs {
							l2.push(s)
							r2.seqs = append(r2.seqs, s)
						}
						before := append([]uint64(nil), r2.seqs...)
						if m := collect(l2, r2, h); m != nil {
							o.Mismatch = m
							return o
						}
						o.Steps++
						if m := compare(l2, r2, maxProbe, search, fmt.Sprintf("after collect(%d)", h), &o.Checks); m != nil {
							o.Mismatch = m
							return o
						}
						// lookups at or after the horizon are unchanged by the collection (a snapshot point never
						// equals a version number: sequence numbers are unique)
						if search {
							rb := &refList{seqs: before}
							f := l2.tx.File(listKey)
							for pr := h; pr <= maxProbe; pr++ {
								if pr == h && rb.has(h) {
									continue
								}
								o.Checks++
								if got := uint64(f.LastBefore(sequence.Seq(pr)).Seq); got != rb.lastBefore(pr) {
									o.Mismatch = mm("LastBefore(%d) changed from %d to %d by collect(%d) (list %v)", pr, rb.lastBefore(pr), got, h, before)
									return o
								}
							}
						}
					}
				}
				return o
			},
		}
	})

	// list-ops: every sequence of depth d over push-next, push-with-gap, pop-front, pop-back and collect
	// at three horizons; all lookups compared after every step; with and without the search array.
	enum.Register("list-ops", func(p string) *enum.Family {
		depth := 8
		fmt.Sscanf(p, "depth=%d", &depth)
		const nops = 7
		total := int64(1)
		for i := 0; i < depth; i++ {
			total *= nops
		}
		opName := []string{"push", "push-gap", "pop-front", "pop-back", "collect-low", "collect-mid", "collect-high"}
		decode := func(i int64) []int {
			ops := make([]int, depth)
			for k := depth - 1; k >= 0; k-- {
				ops[k] = int(i % nops)
				i /= nops
			}
			return ops
		}
		return &enum.Family{
			Count: func() int64 { return total },
			Describe: func(i int64) any {
				var s []string
				for _, o := range decode(i) {
					s = append(s, opName[o])
				}
				return s
			},
			Run: func(i int64) *enum.Outcome {
				o := &enum.Outcome{}
				ops := decode(i)
				for _, search := range []bool{true, false} {
					l := newImpl(!search)
					r := &refList{}
					next := uint64(1)
					for si, op := range ops {
						o.Steps++
						switch op {
						case 0, 1:
							if op == 1 {
								next += 2
							}
							l.push(next)
							r.seqs = append(r.seqs, next)
							next++
						case 2:
							n := l.tx.File(listKey).PopFront()
							var want uint64
							if len(r.seqs) > 0 {
								want = r.seqs[0]
								r.seqs = r.seqs[1:]
							}
							if uint64(n.V().Seq) != want {
								o.Mismatch = mm("PopFront returned %d, want %d (step %d)", n.V().Seq, want, si)
								return o
							}
						case 3:
							n := l.tx.File(listKey).PopBack()
							var want uint64
							if len(r.seqs) > 0 {
								want = r.seqs[len(r.seqs)-1]
								r.seqs = r.seqs[:len(r.seqs)-1]
							}
							if uint64(n.V().Seq) != want {
								o.Mismatch = mm("PopBack returned %d, want %d (step %d)", n.V().Seq, want, si)
								return o
							}
						default:
							var h uint64
							if len(r.seqs) > 0 {
								switch op {
								case 4:
									h = r.seqs[0] + 1
								case 5:
									h = r.seqs[len(r.seqs)/2] + 1
								case 6:
									h = next + 1
								}
							}
							if l.tx.File(listKey) != nil || len(r.seqs) > 0 {
								if m := collect(l, r, h); m != nil {
									o.Mismatch = m
									return o
								}
							}
						}
						if l.tx.File(listKey) == nil && len(r.seqs) == 0 {
							continue
						}
						if m := compare(l, r, next+2, search, fmt.Sprintf("after step %d (%s)", si, opName[op]), &o.Checks); m != nil {
							o.Mismatch = m
							return o
						}
						var fp uint64 = 1469598103934665603
						for _, s := range r.seqs {
							fp = (fp ^ s) * 1099511628211
						}
						o.States = append(o.States, fp)
					}
				}
				return o
			},
		}
	})

	// list-long: deterministic long lists (lengths 1..64, 1000, 4096; gaps of 1 and 3); probes at and
	// around every element, horizons at every element.
	enum.Register("list-long", func(p string) *enum.Family {
		lengths := []int{}
		for i := 1; i <= 64; i++ {
			lengths = append(lengths, i)
		}
		lengths = append(lengths, 1000, 4096)
		return &enum.Family{
			Count:    func() int64 { return int64(len(lengths) * 2) },
			Describe: func(i int64) any { return map[string]any{"length": lengths[i/2], "gap": 1 + 2*(i%2)} },
			Run: func(i int64) *enum.Outcome {
				o := &enum.Outcome{States: []uint64{uint64(i)}}
				n, gap := lengths[i/2], uint64(1+2*(i%2))
				l := newImpl(false)
				r := &refList{}
				for k := 0; k < n; k++ {
					s := uint64(k+1) * gap
					l.push(s)
					r.seqs = append(r.seqs, s)
				}
				f := l.tx.File(listKey)
				max := uint64(n+1)*gap + 1
				step := uint64(1)
				if n > 64 {
					step = gap // probes at every element and its neighbours
				}
				for pr := uint64(0); pr <= max; pr += step {
					for _, q := range []uint64{pr, pr + 1} {
						o.Checks++
						want := uint64(0)
						if q > gap {
							want = ((q - 1) / gap) * gap
							if want > uint64(n)*gap {
								want = uint64(n) * gap
							}
						}
						if got := uint64(f.LastBefore(sequence.Seq(q)).Seq); got != want {
							o.Mismatch = mm("LastBefore(%d) returned %d, want %d (length %d, gap %d)", q, got, want, n, gap)
							return o
						}
					}
				}
				// collect at the middle, then everything at or after the horizon is unchanged
				h := uint64(n/2)*gap + 1
				if m := collect(l, r, h); m != nil {
					o.Mismatch = m
					return o
				}
				for q := h; q <= max; q += step {
					o.Checks++
					if got := uint64(f.LastBefore(sequence.Seq(q)).Seq); got != r.lastBefore(q) {
						o.Mismatch = mm("LastBefore(%d) after collect(%d) returned %d, want %d (length %d)", q, h, got, r.lastBefore(q), n)
						return o
					}
				}
				return o
			},
		}
	})

	// list-drain: lists of every length 1..maxn (gap 2) drained from the front by every number of pops
	// (0..n), and from the back by 0..2 more, then grown again by two versions: all lookups at all probe
	// points against the reference after the draining and after the regrowth. Exercises whatever the
	// search array does as it grows and shrinks (capacity boundaries 32/64/128 included).
	enum.Register("list-drain", func(p string) *enum.Family {
		maxn := 140
		fmt.Sscanf(p, "maxn=%d", &maxn)
		type dc struct{ n, k int }
		var cases []dc
		for n := 1; n <= maxn; n++ {
			for k := 0; k <= n; k++ {
				cases = append(cases, dc{n, k})
			}
		}
		return &enum.Family{
			Count:    func() int64 { return int64(len(cases)) },
			Describe: func(i int64) any { return map[string]any{"length": cases[i].n, "front_pops": cases[i].k} },
			Run: func(i int64) *enum.Outcome {
				o := &enum.Outcome{States: []uint64{uint64(i)}}
				c := cases[i]
				for back := 0; back <= 2 && c.k+back <= c.n; back++ {
					l := newImpl(false)
					r := &refList{}
					for j := 0; j < c.n; j++ {
						s := uint64(2*j + 2)
						l.push(s)
						r.seqs = append(r.seqs, s)
					}
					f := l.tx.File(listKey)
					for j := 0; j < c.k; j++ {
						o.Steps++
						n := f.PopFront()
						if n == nil || uint64(n.V().Seq) != r.seqs[0] {
							o.Mismatch = mm("PopFront number %d of a list of %d returned the wrong version", j+1, c.n)
							return o
						}
						r.seqs = r.seqs[1:]
					}
					for j := 0; j < back; j++ {
						o.Steps++
						n := f.PopBack()
						if n == nil || uint64(n.V().Seq) != r.seqs[len(r.seqs)-1] {
							o.Mismatch = mm("PopBack number %d of a list of %d after %d front pops returned the wrong version", j+1, c.n, c.k)
							return o
						}
						r.seqs = r.seqs[:len(r.seqs)-1]
					}
					max := uint64(2*c.n + 7)
					ctx := fmt.Sprintf("length %d, %d front pops, %d back pops", c.n, c.k, back)
					if len(r.seqs) > 0 {
						if m := compare(l, r, max, true, ctx, &o.Checks); m != nil {
							o.Mismatch = m
							return o
						}
					}
					for _, s := range []uint64{uint64(2*c.n + 3), uint64(2*c.n + 5)} {
						l.push(s)
						r.seqs = append(r.seqs, s)
					}
					if m := compare(l, r, max, true, ctx+", then two more versions", &o.Checks); m != nil {
						o.Mismatch = m
						return o
					}
				}
				return o
			},
		}
	})
}
