package small

import (
	"errors"
	"fmt"
	"os"
	"path/filepath"
	"reflect"
	"runtime"
	"strings"
	"time"

	"github.com/glebziz/fs_db"
	"github.com/glebziz/fs_db/config"
	"github.com/glebziz/fs_db/verifh/enum"
)

// One setting of the configuration with its representations.
type setting struct {
	env      string
	fileKey  string // yaml path "a.b"
	fileVal  string // yaml value when present in the file
	envVal   string
	badFile  string // malformed yaml value ("" = not applicable)
	badEnv   string
	get      func(c *config.Config) any
	def      any
	fromFile any
	fromEnv  any
}

var settings = []setting{
	{env: "PORT", fileKey: "port", fileVal: "1111", envVal: "2222", badFile: "abc", badEnv: "12x",
		get: func(c *config.Config) any { return c.Port }, def: 8888, fromFile: 1111, fromEnv: 2222},
	{env: "DB_PATH", fileKey: "storage.dbPath", fileVal: "file_db", envVal: "env_db",
		get: func(c *config.Config) any { return c.Storage.DbPath }, def: "test_db", fromFile: "file_db", fromEnv: "env_db"},
	{env: "DIR_COUNT", fileKey: "storage.maxDirCount", fileVal: "150", envVal: "250", badFile: "-5", badEnv: "ten",
		get: func(c *config.Config) any { return c.Storage.MaxDirCount }, def: uint64(1_000_000), fromFile: uint64(150), fromEnv: uint64(250)},
	{env: "ROOT_DIRS", fileKey: "storage.rootDirs", fileVal: "[fr1, fr2]", envVal: "er1;er2;er3",
		get: func(c *config.Config) any { return strings.Join(c.Storage.RootDirs, "|") }, def: "./testStorage", fromFile: "fr1|fr2", fromEnv: "er1|er2|er3"},
	{env: "GC_PERIOD", fileKey: "storage.gcPeriod", fileVal: "7m", envVal: "9s", badFile: "soon", badEnv: "5 parsecs",
		get: func(c *config.Config) any { return c.Storage.GCPeriod }, def: time.Minute, fromFile: 7 * time.Minute, fromEnv: 9 * time.Second},
	{env: "NUM_WORKERS", fileKey: "wPool.numWorkers", fileVal: "3", envVal: "5", badFile: "many", badEnv: "1.5",
		get: func(c *config.Config) any { return c.WPool.NumWorkers }, def: "GOMAXPROCS", fromFile: 3, fromEnv: 5},
	{env: "SEND_DURATION", fileKey: "wPool.sendDuration", fileVal: "4ms", envVal: "6us", badFile: "fast", badEnv: "1",
		get: func(c *config.Config) any { return c.WPool.SendDuration }, def: time.Millisecond, fromFile: 4 * time.Millisecond, fromEnv: 6 * time.Microsecond},
}

// states of one setting
const (
	stAbsent = iota
	stFile
	stEnv
	stBoth
	stEnvEmptyFile // env set to "", file present
	stEnvEmpty     // env set to "", file absent
	stBadEnv       // malformed env (file absent)
	stBadFile      // malformed file (env absent)
	nStates
)

var stateNames = []string{"absent", "file", "env", "both", "env-empty+file", "env-empty", "malformed-env", "malformed-file"}

func yamlFor(states []int) string {
	tree := map[string][]string{}
	var top []string
	for i, s := range settings {
		var v string
		switch states[i] {
		case stFile, stBoth, stEnvEmptyFile:
			v = s.fileVal
		case stBadFile:
			v = s.badFile
		default:
			continue
		}
		parts := strings.Split(s.fileKey, ".")
		if len(parts) == 1 {
			top = append(top, fmt.Sprintf("%s: %s", parts[0], v))
		} else {
			tree[parts[0]] = append(tree[parts[0]], fmt.Sprintf("  %s: %s", parts[1], v))
		}
	}
	var b strings.Builder
	for _, l := range top {
		b.WriteString(l + "\n")
	}
	for _, sec := range []string{"storage", "wPool"} {
		if len(tree[sec]) > 0 {
			b.WriteString(sec + ":\n" + strings.Join(tree[sec], "\n") + "\n")
		}
	}
	return b.String()
}

func cfm(what string, args ...any) *enum.Mismatch {
	msg := fmt.Sprintf(what, args...)
	return &enum.Mismatch{What: msg, Sig: "config|" + strings.TrimSuffix(strings.SplitN(msg, " ", 2)[0], ":")}
}

var cfgDir string

// A configuration file that names no setting comes in several forms, all of which must behave like no
// file at all: absent, zero bytes, blank lines, comments only, an empty mapping.
var noSettingForms = []struct{ name, content string }{
	{"no file", ""}, {"zero-byte file", ""}, {"blank file", "\n  \n\n"}, {"comments-only file", "# nothing set here\n# port: 1\n"}, {"empty mapping", "{}\n"},
}

func noSettingFile(form int) (string, error) {
	if form == 0 {
		return "", nil
	}
	p := filepath.Join(cfgDir, fmt.Sprintf("empty%d.yaml", form))
	return p, os.WriteFile(p, []byte(noSettingForms[form].content), 0o644)
}

func runConfig(states []int) *enum.Outcome {
	if yamlFor(states) != "" {
		return runConfigForm(states, 0)
	}
	total := &enum.Outcome{}
	for form := range noSettingForms {
		o := runConfigForm(append([]int(nil), states...), form)
		total.Steps += o.Steps
		total.Checks += o.Checks
		if o.Mismatch != nil || o.Infra != "" {
			if o.Mismatch != nil && form > 0 {
				o.Mismatch.What += " [configuration file: " + noSettingForms[form].name + "]"
			}
			o.Steps, o.Checks = total.Steps, total.Checks
			return o
		}
	}
	return total
}

func runConfigForm(states []int, form int) *enum.Outcome {
	o := &enum.Outcome{Steps: 1}
	if cfgDir == "" {
		d, err := os.MkdirTemp("", "verif-cfg-")
		if err != nil {
			o.Infra = err.Error()
			return o
		}
		cfgDir = d
	}
	// normalise: states that do not apply to a setting (no malformed form for strings)
	for i, s := range settings {
		if (states[i] == stBadEnv && s.badEnv == "") || (states[i] == stBadFile && s.badFile == "") {
			states[i] = stAbsent
		}
	}
	file := ""
	y := yamlFor(states)
	if y != "" {
		file = filepath.Join(cfgDir, "c.yaml")
		if err := os.WriteFile(file, []byte(y), 0o644); err != nil {
			o.Infra = err.Error()
			return o
		}
	} else {
		f, err := noSettingFile(form)
		if err != nil {
			o.Infra = err.Error()
			return o
		}
		file = f
	}
	expectErr := false
	for i, s := range settings {
		os.Unsetenv(s.env)
		switch states[i] {
		case stEnv, stBoth:
			os.Setenv(s.env, s.envVal)
		case stEnvEmptyFile, stEnvEmpty:
			os.Setenv(s.env, "")
		case stBadEnv:
			os.Setenv(s.env, s.badEnv)
			expectErr = true
		case stBadFile:
			expectErr = true
		}
	}
	defer func() {
		for _, s := range settings {
			os.Unsetenv(s.env)
		}
	}()
	desc := func() string {
		var p []string
		for i, s := range settings {
			if states[i] != stAbsent {
				p = append(p, s.env+"="+stateNames[states[i]])
			}
		}
		return strings.Join(p, " ")
	}
	for round := 0; round < 2; round++ { // twice: the first result is mutated in between (defaults must not be aliased)
		c, err := config.ParseConfig(file)
		o.Checks++
		if expectErr {
			if err == nil {
				o.Mismatch = cfm("malformed-value-accepted: ParseConfig returned no error for [%s]", desc())
				return o
			}
			return o
		}
		if err != nil {
			o.Mismatch = cfm("unexpected-error: %v for [%s]", err, desc())
			return o
		}
		for i, s := range settings {
			var want any
			src := ""
			switch states[i] {
			case stEnv, stBoth:
				want, src = s.fromEnv, "environment"
			case stFile, stEnvEmptyFile:
				want, src = s.fromFile, "file"
			default:
				want, src = s.def, "default"
				if want == "GOMAXPROCS" {
					want = runtime.GOMAXPROCS(0)
				}
			}
			o.Checks++
			if got := s.get(&c); !reflect.DeepEqual(got, want) {
				kind := "precedence"
				if round == 1 {
					kind = "defaults-aliased"
				}
				o.Mismatch = cfm("%s %s = %v, want %v from the %s (call %d) for [%s]", kind, s.env, got, want, src, round+1, desc())
				return o
			}
		}
		// mutate everything reachable from the returned value
		for i := range c.Storage.RootDirs {
			c.Storage.RootDirs[i] = "MUTATED"
		}
		c.Port, c.Storage.DbPath = -1, "MUTATED"
	}
	return o
}

func validChecks() *enum.Mismatch {
	type vc struct {
		s       config.Storage
		wantErr error
		wantCnt uint64
	}
	for _, c := range []vc{
		{config.Storage{DbPath: "", RootDirs: []string{"r"}, MaxDirCount: 500}, fs_db.ErrEmptyDbPath, 500},
		{config.Storage{DbPath: "p", RootDirs: nil, MaxDirCount: 500}, fs_db.ErrEmptyRootDirs, 500},
		{config.Storage{DbPath: "p", RootDirs: []string{}, MaxDirCount: 500}, fs_db.ErrEmptyRootDirs, 500},
		{config.Storage{DbPath: "p", RootDirs: []string{"r"}, MaxDirCount: 0}, nil, 100},
		{config.Storage{DbPath: "p", RootDirs: []string{"r"}, MaxDirCount: 1}, nil, 100},
		{config.Storage{DbPath: "p", RootDirs: []string{"r"}, MaxDirCount: 99}, nil, 100},
		{config.Storage{DbPath: "p", RootDirs: []string{"r"}, MaxDirCount: 100}, nil, 100},
		{config.Storage{DbPath: "p", RootDirs: []string{"r"}, MaxDirCount: 101}, nil, 101},
		{config.Storage{DbPath: "p", RootDirs: []string{"r", "s"}, MaxDirCount: 1 << 40}, nil, 1 << 40},
	} {
		s := c.s
		err := s.Valid()
		if !errors.Is(err, c.wantErr) || (c.wantErr == nil && err != nil) {
			return cfm("validation of %+v returned %v, want %v", c.s, err, c.wantErr)
		}
		if c.wantErr == nil && s.MaxDirCount != c.wantCnt {
			return cfm("clamp of MaxDirCount %d gave %d, want %d", c.s.MaxDirCount, s.MaxDirCount, c.wantCnt)
		}
	}
	return nil
}

func init() {
	// config-lattice: mode=all: the full product of the eight states of the seven settings; mode=pairs:
	// every pair of settings in all state combinations with the others at three base states.
	enum.Register("config-lattice", func(p string) *enum.Family {
		n := len(settings)
		if strings.Contains(p, "mode=all") {
			total := int64(1)
			for i := 0; i < n; i++ {
				total *= nStates
			}
			dec := func(i int64) []int {
				st := make([]int, n)
				for k := 0; k < n; k++ {
					st[k] = int(i % nStates)
					i /= nStates
				}
				return st
			}
			return &enum.Family{Count: func() int64 { return total },
				Describe: func(i int64) any { return describeStates(dec(i)) },
				Run: func(i int64) *enum.Outcome {
					o := runConfig(dec(i))
					o.States = []uint64{uint64(i)}
					return o
				}}
		}
		var cases [][]int
		for a := 0; a < n; a++ {
			for b := a + 1; b < n; b++ {
				for sa := 0; sa < nStates; sa++ {
					for sb := 0; sb < nStates; sb++ {
						for _, base := range []int{stAbsent, stFile, stBoth} {
							st := make([]int, n)
							for k := range st {
								st[k] = base
							}
							st[a], st[b] = sa, sb
							cases = append(cases, st)
						}
					}
				}
			}
		}
		return &enum.Family{Count: func() int64 { return int64(len(cases)) + 1 },
			Describe: func(i int64) any {
				if i == int64(len(cases)) {
					return "Storage.Valid boundary set"
				}
				return describeStates(cases[i])
			},
			Run: func(i int64) *enum.Outcome {
				if i == int64(len(cases)) {
					return &enum.Outcome{Mismatch: validChecks(), Steps: 9, Checks: 9, States: []uint64{1 << 40}}
				}
				st := append([]int(nil), cases[i]...)
				o := runConfig(st)
				var fp uint64
				for _, s := range st {
					fp = fp*nStates + uint64(s)
				}
				o.States = []uint64{fp}
				return o
			}}
	})
}

func describeStates(st []int) any {
	m := map[string]string{}
	for i, s := range settings {
		m[s.env] = stateNames[st[i]]
	}
	return m
}

// ---------------------------------------------------------------- value tables

// One environment value of a numeric or duration setting with what ParseConfig must make of it
// (bad: an error, "rather than replaced silently").
type envValue struct {
	text string
	want any
	bad  bool
}

const maxU64 = ^uint64(0)

var valueTable = map[string][]envValue{
	"PORT": {{text: "0", want: 0}, {text: "1", want: 1}, {text: "8080", want: 8080}, {text: "65535", want: 65535},
		{text: "abc", bad: true}, {text: "12x", bad: true}, {text: "1.5", bad: true}, {text: "0x10", bad: true}, {text: "99999999999999999999", bad: true}},
	"DIR_COUNT": {{text: "0", want: uint64(0)}, {text: "1", want: uint64(1)}, {text: "100", want: uint64(100)},
		{text: "9223372036854775807", want: uint64(1<<63 - 1)}, {text: "9223372036854775808", want: uint64(1 << 63)}, {text: "18446744073709551615", want: maxU64},
		{text: "ten", bad: true}, {text: "-1", bad: true}, {text: "-50", bad: true}, {text: "1.5", bad: true}, {text: "1e3", bad: true}, {text: "18446744073709551616", bad: true}},
	"GC_PERIOD": {{text: "1h30m", want: 90 * time.Minute}, {text: "90s", want: 90 * time.Second}, {text: "1.5s", want: 1500 * time.Millisecond}, {text: "0", want: time.Duration(0)}, {text: "100ms", want: 100 * time.Millisecond},
		{text: "5 parsecs", bad: true}, {text: "10", bad: true}, {text: "soon", bad: true}, {text: "1d", bad: true}, {text: "s", bad: true}},
	"NUM_WORKERS": {{text: "1", want: 1}, {text: "64", want: 64}, {text: "0", want: 0},
		{text: "1.5", bad: true}, {text: "many", bad: true}, {text: "2w", bad: true}, {text: "99999999999999999999", bad: true}},
	"SEND_DURATION": {{text: "6us", want: 6 * time.Microsecond}, {text: "1ms", want: time.Millisecond}, {text: "2s", want: 2 * time.Second}, {text: "1m", want: time.Minute},
		{text: "1", bad: true}, {text: "fast", bad: true}, {text: "ms", bad: true}, {text: "5 ms", bad: true}},
}

// runValue: one setting's environment carries v, the other settings are all at the base state.
func runValue(si int, v envValue, base int) *enum.Outcome {
	if base != stAbsent {
		return runValueForm(si, v, base, 0)
	}
	total := &enum.Outcome{}
	for form := range noSettingForms {
		o := runValueForm(si, v, base, form)
		total.Steps += o.Steps
		total.Checks += o.Checks
		if o.Mismatch != nil || o.Infra != "" {
			if o.Mismatch != nil && form > 0 {
				o.Mismatch.What += " [configuration file: " + noSettingForms[form].name + "]"
			}
			return o
		}
	}
	return total
}

func runValueForm(si int, v envValue, base int, form int) *enum.Outcome {
	o := &enum.Outcome{Steps: 1}
	if cfgDir == "" {
		d, err := os.MkdirTemp("", "verif-cfg-")
		if err != nil {
			o.Infra = err.Error()
			return o
		}
		cfgDir = d
	}
	states := make([]int, len(settings))
	for i := range states {
		states[i] = base
	}
	if base == stBoth || base == stFile {
		states[si] = stFile // the file also names the setting: the environment must still win / still be reported
	} else {
		states[si] = stAbsent
	}
	file := ""
	if y := yamlFor(states); y != "" {
		file = filepath.Join(cfgDir, "c.yaml")
		if err := os.WriteFile(file, []byte(y), 0o644); err != nil {
			o.Infra = err.Error()
			return o
		}
	} else {
		f, err := noSettingFile(form)
		if err != nil {
			o.Infra = err.Error()
			return o
		}
		file = f
	}
	for i, s := range settings {
		os.Unsetenv(s.env)
		if i != si && states[i] == stBoth {
			os.Setenv(s.env, s.envVal)
		}
	}
	os.Setenv(settings[si].env, v.text)
	defer func() {
		for _, s := range settings {
			os.Unsetenv(s.env)
		}
	}()
	c, err := config.ParseConfig(file)
	o.Checks++
	desc := fmt.Sprintf("%s=%q in the environment, other settings %s", settings[si].env, v.text, stateNames[base])
	if v.bad {
		if err == nil {
			o.Mismatch = cfm("malformed-value-accepted: ParseConfig returned no error for %s and made it %v", desc, settings[si].get(&c))
		}
		return o
	}
	if err != nil {
		o.Mismatch = cfm("well-formed-value-rejected: %v for %s", err, desc)
		return o
	}
	if got := settings[si].get(&c); !reflect.DeepEqual(got, v.want) {
		o.Mismatch = cfm("value %s = %v, want %v for %s", settings[si].env, got, v.want, desc)
	}
	return o
}

func init() {
	// config-values: every entry of the value tables (boundary and malformed representations of the
	// five numeric / duration settings) in the environment, the other settings absent / in the file /
	// in both.
	enum.Register("config-values", func(string) *enum.Family {
		type vc struct {
			si   int
			v    envValue
			base int
		}
		var cases []vc
		for si, s := range settings {
			for _, v := range valueTable[s.env] {
				for _, base := range []int{stAbsent, stFile, stBoth} {
					cases = append(cases, vc{si, v, base})
				}
			}
		}
		return &enum.Family{
			Count: func() int64 { return int64(len(cases)) },
			Describe: func(i int64) any {
				return map[string]any{"setting": settings[cases[i].si].env, "value": cases[i].v.text, "others": stateNames[cases[i].base]}
			},
			Run: func(i int64) *enum.Outcome {
				o := runValue(cases[i].si, cases[i].v, cases[i].base)
				o.States = []uint64{uint64(i)}
				return o
			},
		}
	})
}
