package small

import (
	"bytes"
	"context"
	"encoding/binary"
	"encoding/hex"
	"fmt"
	"sort"
	"strings"

	"github.com/glebziz/fs_db/internal/db/badger"
	"github.com/glebziz/fs_db/internal/model"
	"github.com/glebziz/fs_db/internal/model/sequence"
	"github.com/glebziz/fs_db/internal/model/transactor"
	filerepo "github.com/glebziz/fs_db/internal/repository/file"
	"github.com/glebziz/fs_db/verifh/enum"
)

// recorder is a badger.Provider that records what the repository writes and serves what we want it to read.
type recorder struct {
	sets  map[string][]byte
	items []badger.Item
}

func (r *recorder) RunTransaction(ctx context.Context, fn transactor.TransactionFn) error {
	return fn(ctx)
}
func (r *recorder) DB(context.Context) badger.QueryManager { return r }
func (r *recorder) Set(key, val []byte) error {
	r.sets[string(key)] = append([]byte(nil), val...)
	return nil
}
func (r *recorder) GetAll(prefix []byte) ([]badger.Item, error) { return r.items, nil }
func (r *recorder) Get(key []byte) ([]byte, error)              { return r.sets[string(key)], nil }
func (r *recorder) Delete(key []byte) error                     { delete(r.sets, string(key)); return nil }

// independent codec of the documented layout: 8-byte little-endian sequence, 16-byte transaction id,
// 16-byte content id, raw key.
func refEncode(seq uint64, txId, cId string, key string) []byte {
	b := make([]byte, 8, 40+len(key))
	binary.LittleEndian.PutUint64(b, seq)
	b = append(b, uuidBytes(txId)...)
	b = append(b, uuidBytes(cId)...)
	return append(b, key...)
}

func uuidBytes(s string) []byte {
	b, err := hex.DecodeString(strings.ReplaceAll(s, "-", ""))
	if err != nil || len(b) != 16 {
		panic("bad uuid in harness: " + s)
	}
	return b
}

func uuidString(b []byte) string {
	h := hex.EncodeToString(b)
	return h[0:8] + "-" + h[8:12] + "-" + h[12:16] + "-" + h[16:20] + "-" + h[20:32]
}

var codecIDs = []string{
	"00000000-0000-0000-0000-000000000000",
	"ffffffff-ffff-ffff-ffff-ffffffffffff",
	"00000000-0000-4000-8000-000000000001",
	"01020304-0506-4708-890a-0b0c0d0e0f10",
	"80000000-0000-0000-0000-000000000000",
	"deadbeef-dead-4eef-bead-beefdeadbeef",
}

// idPairs: all pairs of the boundary ids, plus every id with a single non-zero byte (each of the 16
// positions, values 01 and ff) on either side.
var idPairsCache [][2]string

func idPairs() [][2]string {
	if idPairsCache != nil {
		return idPairsCache
	}
	for _, a := range codecIDs {
		for _, b := range codecIDs {
			idPairsCache = append(idPairsCache, [2]string{a, b})
		}
	}
	for pos := 0; pos < 16; pos++ {
		for _, v := range []byte{0x01, 0xff} {
			raw := make([]byte, 16)
			raw[pos] = v
			id := uuidString(raw)
			idPairsCache = append(idPairsCache, [2]string{id, codecIDs[3]}, [2]string{codecIDs[3], id})
		}
	}
	return idPairsCache
}

func codecKeys() []string {
	alpha := []byte{0x00, 'a', 0x80, 0xff}
	keys := []string{""}
	for _, a := range alpha {
		keys = append(keys, string([]byte{a}))
		for _, b := range alpha {
			keys = append(keys, string([]byte{a, b}))
			for _, c := range alpha {
				keys = append(keys, string([]byte{a, b, c}))
			}
		}
	}
	for n := 4; n <= 64; n++ {
		keys = append(keys, strings.Repeat("k", n-1)+"\xfe")
	}
	// valid multi-byte UTF-8 (2-, 3- and 4-byte runes, combining marks): byte length and rune count differ
	keys = append(keys, "é", "ключ", "日本語", "\U0001D11E", "e\u0301", "café.txt", "a\u00a0b", strings.Repeat("ü", 40), "\U0001F600x\U0001F600")
	for _, n := range []int{255, 256, 65535} {
		k := make([]byte, n)
		for i := range k {
			k[i] = byte(i*7 + 1)
		}
		keys = append(keys, string(k))
	}
	return keys
}

func codecSeqs() []uint64 {
	s := []uint64{0, 1, ^uint64(0), 0x0102030405060708}
	for b := 0; b < 64; b++ {
		s = append(s, 1<<uint(b))
	}
	for n := 1; n <= 8; n++ {
		s = append(s, ^uint64(0)>>uint(64-8*n)<<uint(64-8*n))
	}
	return s
}

func cm(what string, args ...any) *enum.Mismatch {
	return &enum.Mismatch{What: fmt.Sprintf(what, args...), Sig: "codec|" + strings.SplitN(what, " ", 2)[0]}
}

func init() {
	// codec-roundtrip: every (key, sequence, transaction id, content id) of the boundary sets through
	// repository/file.Repo.Set (encode) and Repo.GetAll (decode), against the independent codec.
	enum.Register("codec-roundtrip", func(string) *enum.Family {
		keys, seqs := codecKeys(), codecSeqs()
		total := int64(len(keys) * len(seqs))
		return &enum.Family{
			Count: func() int64 { return total },
			Describe: func(i int64) any {
				return map[string]any{"key_hex": hex.EncodeToString([]byte(keys[i/int64(len(seqs))]))[:min(64, 2*len(keys[i/int64(len(seqs))]))], "seq": seqs[i%int64(len(seqs))]}
			},
			Run: func(i int64) *enum.Outcome {
				o := &enum.Outcome{}
				key, seq := keys[i/int64(len(seqs))], seqs[i%int64(len(seqs))]
				for _, pr := range idPairs() {
					tx, cid := pr[0], pr[1]
					{
						o.Steps++
						rec := &recorder{sets: map[string][]byte{}}
						repo := filerepo.New(rec)
						f := model.File{Key: key, TxId: tx, ContentId: cid, Seq: sequence.Seq(seq)}
						if err := repo.Set(context.Background(), f); err != nil {
							o.Mismatch = cm("encode failed for %+q seq %d: %v", key, seq, err)
							return o
						}
						got, ok := rec.sets["file/"+cid]
						if !ok || len(rec.sets) != 1 {
							o.Mismatch = cm("record-key wrong: wrote keys %v, want file/%s", keysOf(rec.sets), cid)
							return o
						}
						want := refEncode(seq, tx, cid, key)
						o.Checks++
						if !bytes.Equal(got, want) {
							o.Mismatch = cm("layout differs: encoded %x, documented layout gives %x", got, want)
							return o
						}
						// decode what the documented layout produces (records written by the current release)
						rec.items = []badger.Item{{Key: []byte("file/" + cid), Value: want}}
						files, err := repo.GetAll(context.Background())
						o.Checks++
						if err != nil || len(files) != 1 {
							o.Mismatch = cm("decode failed: %v (%d files)", err, len(files))
							return o
						}
						if files[0] != f {
							o.Mismatch = cm("round-trip differs: decoded %+v, encoded %+v", files[0], f)
							return o
						}
					}
				}
				o.States = []uint64{uint64(i)}
				return o
			},
		}
	})

	// codec-longkeys: keys whose length (and whose record length, key + 40) sits at and around every power
	// of two from 2^7 to 2^20, and 3 MiB: the same round trip, fewer id/sequence combinations.
	enum.Register("codec-longkeys", func(string) *enum.Family {
		lset := map[int]bool{}
		for k := 7; k <= 20; k++ {
			for _, d := range []int{-41, -40, -39, -1, 0, 1} {
				lset[(1<<k)+d] = true
			}
		}
		lset[3<<20] = true
		var lens []int
		for l := range lset {
			lens = append(lens, l)
		}
		sort.Ints(lens)
		seqs := []uint64{1, ^uint64(0), 0x0102030405060708}
		ids := [][2]string{{codecIDs[3], codecIDs[5]}, {codecIDs[0], codecIDs[1]}, {codecIDs[1], codecIDs[0]}}
		return &enum.Family{
			Count:    func() int64 { return int64(len(lens)) },
			Describe: func(i int64) any { return map[string]any{"key_length": lens[i]} },
			Run: func(i int64) *enum.Outcome {
				o := &enum.Outcome{States: []uint64{uint64(i)}}
				kb := make([]byte, lens[i])
				for j := range kb {
					kb[j] = byte(j*31 + 7)
				}
				key := string(kb)
				for _, seq := range seqs {
					for _, pr := range ids {
						o.Steps++
						rec := &recorder{sets: map[string][]byte{}}
						repo := filerepo.New(rec)
						f := model.File{Key: key, TxId: pr[0], ContentId: pr[1], Seq: sequence.Seq(seq)}
						if err := repo.Set(context.Background(), f); err != nil {
							o.Mismatch = cm("encode failed for a key of %d bytes: %v", len(key), err)
							return o
						}
						got := rec.sets["file/"+pr[1]]
						want := refEncode(seq, pr[0], pr[1], key)
						o.Checks++
						if !bytes.Equal(got, want) {
							o.Mismatch = cm("layout differs for a key of %d bytes (record of %d bytes, documented layout gives %d)", len(key), len(got), len(want))
							return o
						}
						rec.items = []badger.Item{{Key: []byte("file/" + pr[1]), Value: want}}
						files, err := repo.GetAll(context.Background())
						o.Checks++
						if err != nil || len(files) != 1 {
							o.Mismatch = cm("decode failed for a key of %d bytes: %v (%d files)", len(key), err, len(files))
							return o
						}
						if files[0] != f {
							o.Mismatch = cm("round-trip differs for a key of %d bytes", len(key))
							return o
						}
					}
				}
				return o
			},
		}
	})

	// codec-decode: arbitrary bytes — all lengths 0..41 with every position class (sequence, transaction
	// id, content id, key) filled from a 3-symbol alphabet, every truncation of valid records, golden
	// vectors: never a panic, anything shorter than the 40-byte header is rejected, longer inputs decode
	// to what the documented layout says.
	enum.Register("codec-decode", func(string) *enum.Family {
		syms := []byte{0x00, 0x7f, 0xff}
		type tc struct {
			data []byte
			name string
		}
		var cases []tc
		for n := 0; n <= 41; n++ {
			for c := 0; c < 81; c++ {
				b := make([]byte, n)
				for i := range b {
					cls := 0
					switch {
					case i >= 40:
						cls = 3
					case i >= 24:
						cls = 2
					case i >= 8:
						cls = 1
					}
					d := c
					for k := 0; k < cls; k++ {
						d /= 3
					}
					b[i] = syms[d%3]
				}
				cases = append(cases, tc{b, fmt.Sprintf("len%d/class-pattern%d", n, c)})
			}
		}
		valid := refEncode(0x1122334455667788, codecIDs[3], codecIDs[5], "some/key-ü")
		for n := 0; n <= len(valid); n++ {
			cases = append(cases, tc{valid[:n], fmt.Sprintf("truncation%d", n)})
		}
		goldenHex := "8877665544332211" + "0102030405064708890a0b0c0d0e0f10" + "deadbeefdead4eefbeadbeefdeadbeef" + hex.EncodeToString([]byte("some/key-ü"))
		golden, _ := hex.DecodeString(goldenHex)
		cases = append(cases, tc{golden, "golden-vector"})
		return &enum.Family{
			Count:    func() int64 { return int64(len(cases)) },
			Describe: func(i int64) any { return cases[i].name },
			Run: func(i int64) (o *enum.Outcome) {
				o = &enum.Outcome{States: []uint64{uint64(i)}, Steps: 1}
				c := cases[i]
				defer func() {
					if r := recover(); r != nil {
						o.Mismatch = cm("decode-panic on %s: %v", c.name, r)
					}
				}()
				rec := &recorder{sets: map[string][]byte{}, items: []badger.Item{{Key: []byte("file/x"), Value: c.data}}}
				files, err := filerepo.New(rec).GetAll(context.Background())
				o.Checks++
				if len(c.data) < 40 {
					if err == nil {
						o.Mismatch = cm("short-record accepted: %d bytes decoded without error (%s)", len(c.data), c.name)
					}
					return o
				}
				if err != nil {
					o.Mismatch = cm("valid-length record rejected: %v (%s)", err, c.name)
					return o
				}
				f := files[0]
				want := model.File{Seq: sequence.Seq(binary.LittleEndian.Uint64(c.data[:8])), TxId: uuidString(c.data[8:24]),
					ContentId: uuidString(c.data[24:40]), Key: string(c.data[40:])}
				if f != want {
					o.Mismatch = cm("decoded-values differ: got %+v want %+v (%s)", f, want, c.name)
					return o
				}
				if c.name == "golden-vector" {
					g := model.File{Seq: 0x1122334455667788, TxId: codecIDs[3], ContentId: codecIDs[5], Key: "some/key-ü"}
					if f != g {
						o.Mismatch = cm("golden-vector decodes to %+v, want %+v", f, g)
					}
				}
				return o
			},
		}
	})
}

func keysOf(m map[string][]byte) []string {
	var ks []string
	for k := range m {
		ks = append(ks, k)
	}
	return ks
}

// ---------------------------------------------------------------- pinned-revision database fixture

// FixtureKeys is what `verifh mkfixture` stores (through the public API, on the real Badger engine) and
// what the current tree must read back from the stored directory.
var FixtureKeys = []struct {
	Key string
	ID  int
	Len int
}{{"a", 7001, 8}, {"b", 7002, 2049}, {"ключ-ü", 7003, 1}, {"empty", 7004, 0}, {strings.Repeat("k", 300), 7005, 33000}}
