// Package grpch is the gRPC tier: the real internal/app server on a loopback port and the real
// external client (pass-through shims, in-memory Badger engine, real gRPC), used by the sequential
// engine for C11/C13, plus scripted peers for the stream faults of C10 and the error algebra of C11.
package grpch

import (
	"context"
	"fmt"
	"net"
	"os"
	"reflect"
	"time"
	"unsafe"

	"google.golang.org/grpc"
	"google.golang.org/grpc/credentials/insecure"
	"google.golang.org/grpc/metadata"

	errorsAdapter "github.com/glebziz/fs_db/internal/adapter/errors"
	"github.com/glebziz/fs_db/internal/app"
	"github.com/glebziz/fs_db/internal/di"
	store "github.com/glebziz/fs_db/internal/proto"
	"github.com/glebziz/fs_db/internal/utils/grpc/interceptors/server"
	"github.com/glebziz/fs_db/pkg/external"
	"github.com/glebziz/fs_db/verifh/dbh"
)

// Server is a running fs_db server.
type Server struct {
	Addr      string
	Container *di.Container
	stop      func() error
}

// Ports: every worker process draws from its own range, so that two processes never race for the same
// port between the probe and the server's own Listen (a client would then talk to the other
// process's server).
var portSeq int

func nextPort() int {
	portSeq++
	return 20000 + (os.Getpid()%400)*100 + portSeq%100
}

type appI interface {
	Run(ctx context.Context) error
	Stop() error
}

// Start runs app.New + Run for the instance described by spec.
func Start(spec dbh.Spec) (*Server, error) {
	cfg := spec.Config()
	var lastErr error
	for attempt := 0; attempt < 100; attempt++ {
		port := nextPort()
		if l, err := net.Listen("tcp", fmt.Sprintf(":%d", port)); err != nil {
			continue // in use
		} else {
			l.Close()
		}
		cfg.Port = port
		ctx, cancel := context.WithCancel(context.Background())
		a, err := app.New(ctx, cfg)
		if err != nil {
			cancel()
			return nil, err
		}
		var ai appI = a
		done := make(chan error, 1)
		go func() { done <- ai.Run(ctx) }()
		addr := fmt.Sprintf("127.0.0.1:%d", port)
		ok := false
		for i := 0; i < 400; i++ {
			select {
			case err := <-done:
				lastErr = err
				i = 1000
				continue
			default:
			}
			c, err := net.DialTimeout("tcp", addr, 50*time.Millisecond)
			if err == nil {
				c.Close()
				ok = true
				break
			}
			time.Sleep(2 * time.Millisecond)
		}
		if ok {
			// our own server must be the one that listens: Run fails at once when the port was taken
			time.Sleep(time.Millisecond)
			select {
			case err := <-done:
				lastErr = err
				ok = false
			default:
			}
		}
		if !ok {
			cancel()
			ai.Stop()
			continue
		}
		s := &Server{Addr: addr}
		if f := reflect.ValueOf(a).Elem().FieldByName("container"); f.IsValid() && f.Kind() == reflect.Ptr {
			s.Container = (*di.Container)(unsafe.Pointer(f.Pointer()))
		}
		s.stop = func() error {
			cancel()
			select {
			case <-done:
			case <-time.After(20 * time.Second):
				return fmt.Errorf("server did not stop")
			}
			return ai.Stop()
		}
		return s, nil
	}
	return nil, fmt.Errorf("cannot start server: %v", lastErr)
}

func (s *Server) Stop() error { return s.stop() }

// Open starts a server and returns an instance whose DB is the external client.
func Open(spec dbh.Spec) (*dbh.Inst, error) {
	srv, err := Start(spec)
	if err != nil {
		return nil, err
	}
	db, err := external.Open(context.Background(), srv.Addr)
	if err != nil {
		srv.Stop()
		return nil, err
	}
	cfg := spec.Config()
	in := &dbh.Inst{Spec: spec, Roots: spec.CanonRoots(), DBPath: cfg.Storage.DbPath, DB: db}
	in.CloseFn = func() error {
		db.Close()
		return srv.Stop()
	}
	in.RawTx = func(commit bool, txId string, named bool) error {
		cl, conn, err := Raw(srv.Addr)
		if err != nil {
			return err
		}
		defer conn.Close()
		ctx := context.Background()
		if named {
			ctx = UnknownCtx(ctx, txId)
		}
		if commit {
			_, err = cl.CommitTx(ctx, &store.CommitTxRequest{})
		} else {
			_, err = cl.RollbackTx(ctx, &store.RollbackTxRequest{})
		}
		if err != nil {
			return errorsAdapter.ClientError(err)
		}
		return nil
	}
	return in, nil
}

// UnknownCtx names a transaction id in the outgoing metadata, as the external client's handles do.
func UnknownCtx(ctx context.Context, txId string) context.Context {
	return metadata.AppendToOutgoingContext(ctx, server.TxIdKey, txId)
}

// Raw returns a raw protocol client for scripted peers.
func Raw(addr string) (store.StoreV1Client, *grpc.ClientConn, error) {
	conn, err := grpc.NewClient(addr, grpc.WithTransportCredentials(insecure.NewCredentials()))
	if err != nil {
		return nil, nil, err
	}
	return store.NewStoreV1Client(conn), conn, nil
}
