package grpch

import "github.com/glebziz/fs_db/verifh/fam"

func init() { fam.RegisterGRPC(Open, UnknownCtx) }
