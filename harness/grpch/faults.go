package grpch

import (
	"bytes"
	"context"
	"errors"
	"fmt"
	"io"
	"net"
	"strings"
	"time"

	"google.golang.org/grpc"
	"google.golang.org/grpc/codes"
	"google.golang.org/grpc/status"

	"github.com/glebziz/fs_db"
	adapter "github.com/glebziz/fs_db/internal/adapter/errors"
	imodel "github.com/glebziz/fs_db/internal/model"
	store "github.com/glebziz/fs_db/internal/proto"
	"github.com/glebziz/fs_db/pkg/external"
	"github.com/glebziz/fs_db/verifh/dbh"
	"github.com/glebziz/fs_db/verifh/enum"
	"github.com/glebziz/fs_db/verifh/model"
)

type gcase struct {
	Kind     string `json:"kind"`
	Len      int    `json:"length"`
	At       int    `json:"position"`
	End      string `json:"ending,omitempty"`
	Prev     bool   `json:"key_had_a_value"`
	Via      string `json:"via,omitempty"`
	Code     string `json:"server_answer,omitempty"`
	Wrap     string `json:"wrapping,omitempty"`
	Sentinel string `json:"sentinel,omitempty"`
	// Settled: the fault comes after the server had time to take in what was sent before it (the
	// unsettled variant leaves the order of data and abort on the server to the transport)
	Settled bool `json:"settled,omitempty"`
}

const settle = 40 * time.Millisecond

func gm(what, sig string) *enum.Mismatch { return &enum.Mismatch{What: what, Sig: "grpc-fault|" + sig} }

var errSrc = errors.New("injected source failure")

type failingReader struct {
	data   []byte
	off    int
	calls  int
	failAt int
	cancel func()
	settle bool
}

func (r *failingReader) Read(p []byte) (int, error) {
	r.calls++
	if r.calls == r.failAt {
		if r.settle {
			time.Sleep(settle)
		}
		if r.cancel != nil {
			r.cancel()
		} else {
			return 0, errSrc
		}
	}
	if r.off >= len(r.data) {
		return 0, io.EOF
	}
	n := copy(p, r.data[r.off:])
	if n > 2048 {
		n = 2048
	}
	r.off += n
	return n, nil
}

const fkey = "k"

// finalValue stops the server (waiting for its handlers), reopens the data with the inline client and
// reads the key.
func finalValue(srv *Server, spec dbh.Spec) ([]byte, error, error) {
	if err := srv.Stop(); err != nil {
		return nil, nil, err
	}
	dbh.NewProcess()
	in, err := dbh.Open(spec)
	if err != nil {
		return nil, nil, err
	}
	defer in.Close()
	b, gerr := in.DB.Get(context.Background(), fkey)
	return b, gerr, nil
}

func runUpload(c gcase) *enum.Outcome {
	o := &enum.Outcome{Steps: 1}
	spec := dbh.Spec{Roots: 1, MaxDirCount: 100, Workers: 1}
	dbh.FreshWorld()
	srv, err := Start(spec)
	if err != nil {
		o.Infra = err.Error()
		return o
	}
	stopped := false
	defer func() {
		if !stopped {
			srv.Stop()
		}
	}()
	ctx := context.Background()
	db, err := external.Open(ctx, srv.Addr)
	if err != nil {
		o.Infra = err.Error()
		return o
	}
	old := dbh.Content(1, 8)
	if c.Prev {
		if err := db.Set(ctx, fkey, old); err != nil {
			o.Infra = "set-up write failed: " + err.Error()
			return o
		}
	}
	content := dbh.Content(2, c.Len)
	var opErr error
	success := false // the client was told the upload succeeded
	var sent []byte
	switch c.Kind {
	case "raw-upload":
		cl, conn, err := Raw(srv.Addr)
		if err != nil {
			o.Infra = err.Error()
			return o
		}
		cctx, cancel := context.WithCancel(ctx)
		stream, err := cl.SetFile(cctx)
		if err == nil {
			err = stream.Send(&store.SetFileRequest{Data: &store.SetFileRequest_Header{Header: &store.FileHeader{Key: fkey}}})
		}
		for i := 0; err == nil && i < c.At && i*2048 < len(content); i++ {
			chunk := content[i*2048 : min(len(content), (i+1)*2048)]
			err = stream.Send(&store.SetFileRequest{Data: &store.SetFileRequest_Chunk{Chunk: chunk}})
			sent = append(sent, chunk...)
		}
		if c.Settled && c.End != "half-close" {
			time.Sleep(settle)
		}
		switch c.End {
		case "cancel":
			cancel()
			opErr = context.Canceled
		case "close-conn":
			conn.Close()
			opErr = errors.New("connection closed")
		case "half-close":
			if err == nil {
				_, err = stream.CloseAndRecv()
			}
			opErr = err
			success = err == nil
		}
		cancel()
		conn.Close()
	case "reader-fails":
		fr := &failingReader{data: content, failAt: c.At, settle: c.Settled}
		opErr = db.SetReader(ctx, fkey, fr)
		success = opErr == nil
		sent = content
	case "ctx-cancelled":
		cctx, cancel := context.WithCancel(ctx)
		fr := &failingReader{data: content, failAt: c.At, cancel: cancel, settle: c.Settled}
		opErr = db.SetReader(cctx, fkey, fr)
		cancel()
		success = opErr == nil
		sent = content
	}
	if !success {
		// an aborted upload may still be in the hands of a server handler (GracefulStop does not wait for
		// handlers): give it time to show its effect before the server is stopped. This only sharpens
		// detection; a correct server never changes the key here, however long we wait.
		for i := 0; i < 25; i++ {
			b, err := db.Get(ctx, fkey)
			changed := (c.Prev && (err != nil || !bytes.Equal(b, old))) || (!c.Prev && err == nil)
			if changed {
				break
			}
			time.Sleep(8 * time.Millisecond)
		}
	}
	got, gerr, ierr := finalValue(srv, spec)
	stopped = true
	if ierr != nil {
		o.Infra = "final read: " + ierr.Error()
		return o
	}
	o.Checks++
	desc := fmt.Sprintf("%+v", c)
	if success {
		if gerr != nil || !bytes.Equal(got, sent) {
			d := "error " + dbh.ShortErr(gerr)
			if gerr == nil {
				d = dbh.Describe(got, sent)
			}
			o.Mismatch = gm(fmt.Sprintf("upload reported success but the stored content is %s of what was sent (case %s)", d, desc), "success-but-content-differs")
		}
		return o
	}
	if c.Kind == "ctx-cancelled" {
		// the cancellation races with the completion of the upload on the server: the client may see the
		// cancellation although the server had already taken the complete content. Only a partial or
		// mixed content is a violation here.
		okOld := (c.Prev && gerr == nil && bytes.Equal(got, old)) || (!c.Prev && dbh.Class(gerr) == model.ErrNotFound)
		okNew := gerr == nil && bytes.Equal(got, content)
		if !okOld && !okNew {
			o.Mismatch = gm(fmt.Sprintf("cancelled upload left a partial content: %d bytes, %s of the new content (case %s)", len(got), dbh.Describe(got, content), desc), "cancelled-upload-partial-content")
		}
		return o
	}
	// not acknowledged: the key keeps what it had
	if c.Prev {
		if gerr != nil || !bytes.Equal(got, old) {
			d := "error " + dbh.ShortErr(gerr)
			if gerr == nil {
				d = fmt.Sprintf("%d bytes: %s of the new content", len(got), dbh.Describe(got, content))
			}
			o.Mismatch = gm(fmt.Sprintf("upload failed or was aborted (%s) but the key no longer has its previous value: it now reads %s (case %s)", dbh.ShortErr(opErr), d, desc), "aborted-upload-left-a-trace")
		}
	} else if dbh.Class(gerr) != model.ErrNotFound {
		o.Mismatch = gm(fmt.Sprintf("upload failed or was aborted (%s) but the key now reads %d bytes: %s of the new content (case %s)", dbh.ShortErr(opErr), len(got), dbh.Describe(got, content), desc), "aborted-upload-left-a-trace")
	}
	return o
}

// ---------------------------------------------------------------- fake server (scripted answers)

type fakeServer struct {
	store.UnimplementedStoreV1Server
	failAfter int   // SetFile: answer with err after this many chunk messages (-1: at the end)
	err       error // what to answer
}

func (f *fakeServer) SetFile(stream store.StoreV1_SetFileServer) error {
	if _, err := stream.Recv(); err != nil {
		return err
	}
	n := 0
	for {
		if f.failAfter >= 0 && n >= f.failAfter {
			return adapter.Error(f.err)
		}
		_, err := stream.Recv()
		if err == io.EOF {
			break
		}
		if err != nil {
			return err
		}
		n++
	}
	if f.err != nil {
		return adapter.Error(f.err)
	}
	return stream.SendAndClose(&store.SetFileResponse{})
}

func (f *fakeServer) DeleteFile(context.Context, *store.DeleteFileRequest) (*store.DeleteFileResponse, error) {
	return nil, adapter.Error(f.err)
}

func startFake(f *fakeServer) (string, func(), error) {
	var l net.Listener
	var err error
	for i := 0; i < 100; i++ {
		l, err = net.Listen("tcp", fmt.Sprintf("127.0.0.1:%d", nextPort()))
		if err == nil {
			break
		}
	}
	if err != nil {
		return "", nil, err
	}
	s := grpc.NewServer()
	store.RegisterStoreV1Server(s, f)
	go s.Serve(l)
	return l.Addr().String(), s.Stop, nil
}

var sentinels = map[string]error{
	"ErrNoFreeSpace": fs_db.ErrNoFreeSpace, "ErrNotFound": fs_db.ErrNotFound, "ErrEmptyKey": fs_db.ErrEmptyKey,
	"ErrHeaderNotFound": fs_db.ErrHeaderNotFound, "ErrTxNotFound": fs_db.ErrTxNotFound,
	"ErrTxAlreadyExists": fs_db.ErrTxAlreadyExists, "ErrTxSerialization": fs_db.ErrTxSerialization,
}

type customErr struct{ inner error }

func (c customErr) Error() string { return "custom(" + c.inner.Error() + ")" }
func (c customErr) Unwrap() error { return c.inner }

type nopRC struct{ io.Reader }

func (nopRC) Close() error { return nil }

func wrapErr(shape string, e error) error {
	switch shape {
	case "bare":
		return e
	case "w1":
		return fmt.Errorf("a: %w", e)
	case "w2":
		return fmt.Errorf("b: %w", fmt.Errorf("a: %w", e))
	case "w3":
		return fmt.Errorf("c: %w", fmt.Errorf("b: %w", fmt.Errorf("a: %w", e)))
	case "join-left":
		return errors.Join(e, errors.New("other"))
	case "join-right":
		return errors.Join(errors.New("other"), e)
	case "custom-unwrap":
		return customErr{e}
	case "not-enough-space":
		return imodel.NotEnoughSpaceError{Err: fmt.Errorf("x: %w", e), Start: nopRC{strings.NewReader("")}}
	}
	return e
}

var shapes = []string{"bare", "w1", "w2", "w3", "join-left", "join-right", "custom-unwrap", "not-enough-space"}

// runAlgebra: server adapter -> real status on the wire -> client adapter, for one sentinel and shape,
// through DeleteFile (unary) and through the verdict of an upload (SetReader, Create).
func runAlgebra(c gcase) *enum.Outcome {
	o := &enum.Outcome{Steps: 1}
	var base error
	if c.Sentinel == "plain" {
		base = errors.New("some internal failure")
	} else {
		base = sentinels[c.Sentinel]
	}
	f := &fakeServer{err: wrapErr(c.Wrap, base), failAfter: c.At}
	addr, stop, err := startFake(f)
	if err != nil {
		o.Infra = err.Error()
		return o
	}
	defer stop()
	ctx, cancel := context.WithTimeout(context.Background(), 20*time.Second)
	defer cancel()
	db, err := external.Open(ctx, addr)
	if err != nil {
		o.Infra = err.Error()
		return o
	}
	var got error
	switch c.Via {
	case "Delete":
		got = db.Delete(ctx, fkey)
	case "SetReader":
		got = db.SetReader(ctx, fkey, bytes.NewReader(dbh.Content(3, c.Len)))
	case "Set":
		got = db.Set(ctx, fkey, dbh.Content(3, c.Len))
	case "Create":
		w, err := db.Create(ctx, fkey)
		if err == nil {
			_, err = w.Write(dbh.Content(3, c.Len))
			cerr := w.Close()
			if err == nil {
				err = cerr
			}
		}
		got = err
	}
	o.Checks++
	desc := fmt.Sprintf("%+v", c)
	if got == nil {
		o.Mismatch = gm(fmt.Sprintf("the server rejected the call with %v but the client returned nil (case %s)", f.err, desc), "server-verdict-swallowed")
		return o
	}
	want := base
	if c.Sentinel == "plain" {
		want = fs_db.ErrUnknown
	}
	if !errors.Is(got, want) {
		o.Mismatch = gm(fmt.Sprintf("server error %q arrived as %q, which is not %v (case %s)", f.err, got, want, desc), "error-class-lost")
		return o
	}
	for name, s := range sentinels {
		if s != want && errors.Is(got, s) {
			o.Mismatch = gm(fmt.Sprintf("server error %q arrived as %q, which also matches %s (case %s)", f.err, got, name, desc), "error-class-extra")
			return o
		}
	}
	_ = codes.OK
	_ = status.Code
	return o
}

func init() {
	enum.Register("grpc-faults", func(p string) *enum.Family {
		var cases []gcase
		lens := []int{1, 2049, 5000}
		for _, ln := range lens {
			nchunks := (ln + 2047) / 2048
			for _, prev := range []bool{true, false} {
				for at := 0; at <= nchunks; at++ {
					for _, end := range []string{"cancel", "close-conn", "half-close"} {
						cases = append(cases, gcase{Kind: "raw-upload", Len: ln, At: at, End: end, Prev: prev})
						if end != "half-close" && at > 0 {
							cases = append(cases, gcase{Kind: "raw-upload", Len: ln, At: at, End: end, Prev: prev, Settled: true})
						}
					}
				}
				for at := 1; at <= nchunks+1; at++ {
					cases = append(cases, gcase{Kind: "reader-fails", Len: ln, At: at, Prev: prev})
					cases = append(cases, gcase{Kind: "ctx-cancelled", Len: ln, At: at, Prev: prev})
					if at > 1 {
						cases = append(cases, gcase{Kind: "reader-fails", Len: ln, At: at, Prev: prev, Settled: true})
						cases = append(cases, gcase{Kind: "ctx-cancelled", Len: ln, At: at, Prev: prev, Settled: true})
					}
				}
			}
		}
		return &enum.Family{
			Count:    func() int64 { return int64(len(cases)) },
			Describe: func(i int64) any { return cases[i] },
			Run: func(i int64) *enum.Outcome {
				o := runUpload(cases[i])
				o.States = []uint64{uint64(i)}
				return o
			},
		}
	})
	enum.Register("grpc-errors", func(p string) *enum.Family {
		var cases []gcase
		names := []string{"plain"}
		for n := range sentinels {
			names = append(names, n)
		}
		sortStrings(names)
		for _, n := range names {
			for _, sh := range shapes {
				cases = append(cases, gcase{Kind: "algebra", Via: "Delete", Sentinel: n, Wrap: sh})
			}
			// the verdict of an upload: at the end, and after 0 / 1 chunk messages
			for _, via := range []string{"SetReader", "Set", "Create"} {
				for _, at := range []int{-1, 0, 1} {
					cases = append(cases, gcase{Kind: "algebra", Via: via, Sentinel: n, Wrap: "w1", At: at, Len: 5000})
				}
			}
		}
		return &enum.Family{
			Count:    func() int64 { return int64(len(cases)) },
			Describe: func(i int64) any { return cases[i] },
			Run: func(i int64) *enum.Outcome {
				o := runAlgebra(cases[i])
				o.States = []uint64{uint64(i) + 1<<30}
				return o
			},
		}
	})
}

func sortStrings(s []string) {
	for i := 1; i < len(s); i++ {
		for j := i; j > 0 && s[j] < s[j-1]; j-- {
			s[j], s[j-1] = s[j-1], s[j]
		}
	}
}
