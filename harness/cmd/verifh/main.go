package main

import (
	"fmt"
	"os"

	"github.com/glebziz/fs_db/verifh/litmus"
)

func main() {
	if len(os.Args) < 2 {
		fmt.Fprintln(os.Stderr, "usage: verifh <command> [args]")
		os.Exit(2)
	}
	switch os.Args[1] {
	case "selfcheck":
		rep, err := litmus.Run()
		fmt.Print(rep)
		if err != nil {
			fmt.Fprintln(os.Stderr, "SELF-CHECK FAILED:", err)
			os.Exit(2)
		}
	default:
		fmt.Fprintln(os.Stderr, "unknown command", os.Args[1])
		os.Exit(2)
	}
}
