package main

import (
	"fmt"
	"io"
	"log/slog"
	"os"
	"runtime/pprof"
	"strings"
	"time"

	"github.com/glebziz/fs_db/verifh/checks"
	"github.com/glebziz/fs_db/verifh/conc"
	"github.com/glebziz/fs_db/verifh/crash"
	"github.com/glebziz/fs_db/verifh/dbh"
	"github.com/glebziz/fs_db/verifh/enum"
	"github.com/glebziz/fs_db/verifh/hk"
	"github.com/glebziz/fs_db/verifh/litmus"
	"github.com/glebziz/fs_db/verifh/model"
	"github.com/glebziz/fs_db/verifh/seq"
	"github.com/glebziz/fs_db/verifh/small"
	"github.com/glebziz/fs_db/verifrt/vrt"
)

func main() {
	if os.Getenv("VERIF_SLOG") == "" {
		slog.SetDefault(slog.New(slog.NewTextHandler(io.Discard, nil)))
	}
	if len(os.Args) < 2 {
		fmt.Fprintln(os.Stderr, "usage: verifh selfcheck | check <ID> quick|thorough | worker | replay <file>")
		os.Exit(2)
	}
	if dir := os.Getenv("VERIF_CPUPROFILE"); dir != "" {
		// debugging aid: one CPU profile per process
		if f, err := os.Create(fmt.Sprintf("%s/%s-%d.prof", dir, os.Args[1], os.Getpid())); err == nil {
			pprof.StartCPUProfile(f)
			defer pprof.StopCPUProfile()
		}
	}
	switch os.Args[1] {
	case "selfcheck":
		conc.ParentRaceSetup() // the self-check's intentional races are not for the terminal
		rep, err := litmus.Run()
		if os.Getenv("VERIF_VERBOSE") != "" {
			fmt.Print(rep)
		}
		if err != nil {
			fmt.Fprintln(os.Stderr, "SELF-CHECK FAILED:", err)
			os.Exit(2)
		}
	case "dbgrace":
		litmus.DebugRace()
	case "worker":
		conc.WorkerMain()
	case "seqlevel":
		// debugging aid: verifh seqlevel <family> <params> <depth>
		var d int
		fmt.Sscan(os.Args[4], &d)
		fps := map[uint64]struct{}{}
		lr := seq.RunLevel(os.Args[2], os.Args[3], d, time.Now().Add(time.Hour), fps)
		fmt.Printf("histories %d steps %d reads %d mismatching %d seconds %.1f complete %v\n", lr.Stats.Histories, lr.Stats.Steps, lr.Stats.Obs, lr.Stats.ViolCount, lr.Seconds, lr.Complete)
		for _, v := range lr.Stats.Viol {
			fmt.Println("  ", v.Sig, v.History, v.What)
		}
	case "seqrun":
		// debugging aid: verifh seqrun <family> <params> <eager 0|1> <history>, history e.g. "S:a B0:RR S:a GC R0"
		f := seq.Lookup(os.Args[2], os.Args[3])
		var hist []seq.Op
		lv := map[string]model.Level{"RU": model.RU, "RC": model.RC, "RR": model.RR, "SER": model.SER}
		for _, tok := range strings.Fields(os.Args[5]) {
			head, arg, _ := strings.Cut(tok, ":")
			slot := 0
			if len(head) > 1 && head != "GC" && head != "RO" {
				fmt.Sscan(head[1:], &slot)
			}
			switch {
			case head == "GC":
				hist = append(hist, seq.Op{Kind: seq.GC})
			case head == "RO":
				hist = append(hist, seq.Op{Kind: seq.Reopen, Actor: model.Auto})
			case head == "S":
				hist = append(hist, seq.Op{Kind: seq.Set, Actor: model.Auto, Key: arg})
			case head == "D":
				hist = append(hist, seq.Op{Kind: seq.Delete, Actor: model.Auto, Key: arg})
			case head[0] == 'B':
				hist = append(hist, seq.Op{Kind: seq.Begin, Actor: slot, Level: lv[arg]})
			case head[0] == 's':
				hist = append(hist, seq.Op{Kind: seq.Set, Actor: slot, Key: arg})
			case head[0] == 'd':
				hist = append(hist, seq.Op{Kind: seq.Delete, Actor: slot, Key: arg})
			case head[0] == 'C':
				hist = append(hist, seq.Op{Kind: seq.Commit, Actor: slot})
			case head[0] == 'R':
				hist = append(hist, seq.Op{Kind: seq.Rollback, Actor: slot})
			}
		}
		res, verdict := seq.RunOne(f, hist, os.Args[4] == "1")
		fmt.Println(seq.HistoryString(hist), "verdict:", verdict)
		if res != nil && res.Mismatch != nil {
			fmt.Println("mismatch:", res.Mismatch.Sig, res.Mismatch.Error())
		}
		dbh.Cleanup()
	case "enumcase":
		// debugging aid: verifh enumcase <family> <params> <from> <to>
		defer dbh.Cleanup()
		f := enum.Lookup(os.Args[2], os.Args[3])
		var from, to int64
		fmt.Sscan(os.Args[4], &from)
		fmt.Sscan(os.Args[5], &to)
		for i := from; i <= to; i++ {
			o := f.Run(i)
			if o.Mismatch != nil {
				fmt.Printf("case %d: %s\n   %s\n", i, o.Mismatch.Sig, o.Mismatch.What)
			}
		}
	case "mkfixture":
		if err := small.MakeFixture(os.Args[2]); err != nil {
			fmt.Fprintln(os.Stderr, "mkfixture:", err)
			os.Exit(3)
		}
	case "crashchild":
		crash.ChildMain(os.Args[2])
	case "enumworker":
		defer dbh.Cleanup()
		enum.WorkerMain(os.Args[2])
	case "seqworker":
		defer dbh.Cleanup()
		seq.WorkerMain(os.Args[2])
	case "check":
		if len(os.Args) < 4 {
			fmt.Fprintln(os.Stderr, "usage: verifh check <ID> quick|thorough")
			os.Exit(2)
		}
		conc.ParentRaceSetup()
		if _, err := litmus.Run(); err != nil {
			fmt.Fprintln(os.Stderr, "SELF-CHECK FAILED:", err)
			os.Exit(2)
		}
		conc.DiscardRaceLog()
		rc := checks.Run(os.Args[2], os.Args[3])
		dbh.Cleanup()
		os.Exit(rc)
	case "explore":
		// debugging aid: verifh explore <scenario> <params> <bound>
		var b int
		fmt.Sscan(os.Args[4], &b)
		if vrt.RaceEnabled {
			conc.ParentRaceSetup()
		}
		pool, err := conc.NewPool(0)
		if err != nil {
			os.Exit(3)
		}
		defer pool.Close()
		rp := hk.NewReporter("DBG")
		hk.OutDir = os.TempDir()
		sum := conc.RunItems(rp, pool, []conc.Item{{Name: os.Args[2], Params: os.Args[3], MaxBound: b}}, hk.NewBudget(30*time.Minute), true)
		fmt.Printf("executions %d outcomes %v\n", sum.Execs, sum.Outcomes)
		for _, r := range sum.Races {
			fmt.Printf("race %s x%d: %v\n", r.Sig, r.Count, r.Frames)
		}
	case "replay":
		r, err := hk.ReadReplay(os.Args[2])
		if err != nil {
			fmt.Fprintln(os.Stderr, err)
			os.Exit(2)
		}
		os.Exit(checks.Replay(r))
	default:
		fmt.Fprintln(os.Stderr, "unknown command", os.Args[1])
		os.Exit(2)
	}
}
