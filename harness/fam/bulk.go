package fam

import (
	"fmt"
	"time"

	"github.com/glebziz/fs_db/verifh/enum"
	"github.com/glebziz/fs_db/verifh/model"
	"github.com/glebziz/fs_db/verifh/seq"
	"github.com/glebziz/fs_db/verifrt/vrt"
)

// bulk: the size dimension of C03 / C14, beyond the two keys and handful of writes of the history
// enumeration: one transaction (or the autocommit caller) issuing n writes, n = 1..maxn, in six shapes;
// every key is read by every actor after every step, and at the end (optionally after a restart)
// the roots must hold exactly one content file per readable key.
func init() {
	enum.Register("bulk", func(p string) *enum.Family {
		maxn := atoi(params(p)["maxn"], 40)
		// large=1: sparse large sizes around powers of two and round numbers (batch and capacity
		// boundaries), three shapes that produce one big clean-up batch, few observed keys
		large := atoi(params(p)["large"], 0) != 0
		sizes := []int{}
		if large {
			sizes = []int{63, 64, 65, 127, 128, 129, 255, 256, 257, 511, 512, 513, 999, 1000, 1001, 1003, 1023, 1024, 1025}
			if maxn > 1025 {
				sizes = append(sizes, 2047, 2048, 2049)
			}
			maxn = sizes[len(sizes)-1]
		}
		shapes := []string{
			"RC transaction overwrites one key n times, Commit",
			"RR transaction writes n keys, Commit, Reopen",
			"autocommit overwrites one key n times",
			"RC transaction overwrites one key n times and writes n keys, Rollback",
			"SER transaction writes n keys, an autocommit write of the last one intervenes, Commit is refused",
			"n keys written then deleted, half in a transaction",
		}
		keys := make([]string, maxn)
		for i := range keys {
			keys[i] = fmt.Sprintf("k%04d", i)
		}
		type bc struct {
			n, shape     int
			close, eager bool
		}
		var cases []bc
		if large {
			for _, n := range sizes {
				for _, sh := range []int{0, 2, 3} {
					cases = append(cases, bc{n, sh, false, true})
				}
			}
		} else {
			for n := 1; n <= maxn; n++ {
				for sh := range shapes {
					for _, cl := range []bool{false, true} {
						for _, eager := range []bool{true, false} {
							cases = append(cases, bc{n, sh, cl, eager})
						}
					}
				}
			}
		}
		set := func(actor int, k string) seq.Op { return seq.Op{Kind: seq.Set, Actor: actor, Key: k} }
		history := func(c bc) []seq.Op {
			var h []seq.Op
			switch c.shape {
			case 0:
				h = append(h, set(model.Auto, keys[0]), seq.Op{Kind: seq.Begin, Actor: 0, Level: model.RC})
				for i := 0; i < c.n; i++ {
					h = append(h, set(0, keys[0]))
				}
				h = append(h, seq.Op{Kind: seq.Commit, Actor: 0})
			case 1:
				h = append(h, seq.Op{Kind: seq.Begin, Actor: 0, Level: model.RR})
				for i := 0; i < c.n; i++ {
					h = append(h, set(0, keys[i]))
				}
				h = append(h, seq.Op{Kind: seq.Commit, Actor: 0}, seq.Op{Kind: seq.Reopen, Actor: model.Auto})
			case 2:
				for i := 0; i < c.n; i++ {
					h = append(h, set(model.Auto, keys[0]))
				}
				h = append(h, seq.Op{Kind: seq.GC})
			case 3:
				h = append(h, set(model.Auto, keys[0]), seq.Op{Kind: seq.Begin, Actor: 0, Level: model.RC})
				for i := 0; i < c.n; i++ {
					h = append(h, set(0, keys[0]), set(0, keys[i]))
				}
				h = append(h, seq.Op{Kind: seq.Rollback, Actor: 0})
			case 4:
				h = append(h, seq.Op{Kind: seq.Begin, Actor: 0, Level: model.SER})
				for i := 0; i < c.n; i++ {
					h = append(h, set(0, keys[i]))
				}
				h = append(h, set(model.Auto, keys[c.n-1]), seq.Op{Kind: seq.Commit, Actor: 0})
			case 5:
				for i := 0; i < c.n; i++ {
					h = append(h, set(model.Auto, keys[i]))
				}
				h = append(h, seq.Op{Kind: seq.Begin, Actor: 0, Level: model.RC})
				for i := 0; i < c.n; i++ {
					a := model.Auto
					if i%2 == 1 {
						a = 0
					}
					h = append(h, seq.Op{Kind: seq.Delete, Actor: a, Key: keys[i]})
				}
				h = append(h, seq.Op{Kind: seq.Commit, Actor: 0})
			}
			return h
		}
		mk := func(closeFirst bool) *seq.Family {
			obs := keys
			if large {
				obs = keys[:3]
			}
			f := &seq.Family{Opt: seq.Options{Slots: 1, ObsKeys: append(append([]string{}, obs...), neverKey), Spec: spec()}}
			f.Opt.Epilogue = func(r *seq.Runner) *seq.Mismatch { return DiskEpilogue(r, closeFirst) }
			return f
		}
		fams := map[bool]*seq.Family{false: mk(false), true: mk(true)}
		return &enum.Family{
			Count: func() int64 { return int64(len(cases)) },
			Describe: func(i int64) any {
				c := cases[i]
				return map[string]any{"n": c.n, "shape": shapes[c.shape], "restart_before_the_disk_check": c.close, "background_settled_after_every_step": c.eager}
			},
			Run: func(i int64) *enum.Outcome {
				c := cases[i]
				hist := history(c)
				if large {
					// thousands of operations in one execution: the default step horizon is for short programs
					old := vrt.Opt
					vrt.Opt = vrt.Options{LongTimer: time.Minute, StepHorizon: 50_000_000}
					defer func() { vrt.Opt = old }()
				}
				res, verdict := seq.RunOne(fams[c.close], hist, c.eager)
				o := &enum.Outcome{States: []uint64{uint64(i)}}
				if res != nil {
					o.Steps, o.Checks, o.Infra = int64(res.Steps), res.Obs, res.Infra
					if res.Mismatch != nil {
						o.Mismatch = &enum.Mismatch{What: fmt.Sprintf("%s [n=%d, %s]", res.Mismatch.Error(), c.n, shapes[c.shape]), Sig: "bulk|" + res.Mismatch.Sig}
					}
				}
				if o.Mismatch == nil && verdict != "" {
					o.Mismatch = &enum.Mismatch{What: verdict, Sig: "bulk|scheduler"}
				}
				return o
			},
		}
	})
}
