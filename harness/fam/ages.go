package fam

import (
	"fmt"

	"github.com/glebziz/fs_db/verifh/enum"
	"github.com/glebziz/fs_db/verifh/model"
	"github.com/glebziz/fs_db/verifh/seq"
)

// ages: the "several snapshot transactions of different ages" dimension of C09, beyond the two or three
// slots of the history enumeration. n transactions are begun one after another, each followed by an
// autocommit overwrite, so that transaction i must keep reading version i; the collector runs after the
// last Begin and after every transaction's end; the transactions end in one of three orders, by
// Rollback or Commit; every open transaction and the autocommit caller read after every step.
//
// Cases: n in 1..maxn x level pattern x end order x end kind x background policy.
func init() {
	enum.Register("ages", func(p string) *enum.Family {
		maxn := atoi(params(p)["maxn"], 12)
		type ac struct {
			n, lv, order  int
			commit, eager bool
		}
		lvNames := []string{"all RR", "all SER", "RR/RC alternating", "RU then RR", "RC then SER/RR alternating"}
		orderNames := []string{"oldest first", "youngest first", "even then odd", "all but the youngest back to back, then one pass"}
		level := func(pat, i int) model.Level {
			switch pat {
			case 0:
				return model.RR
			case 1:
				return model.SER
			case 2:
				if i%2 == 0 {
					return model.RR
				}
				return model.RC
			case 3:
				if i == 0 {
					return model.RU
				}
				return model.RR
			}
			if i == 0 {
				return model.RC
			}
			if i%2 == 0 {
				return model.RR
			}
			return model.SER
		}
		var cases []ac
		for n := 1; n <= maxn; n++ {
			for lv := range lvNames {
				for order := range orderNames {
					for _, commit := range []bool{false, true} {
						for _, eager := range []bool{true, false} {
							cases = append(cases, ac{n, lv, order, commit, eager})
						}
					}
				}
			}
		}
		history := func(c ac) []seq.Op {
			h := []seq.Op{{Kind: seq.Set, Actor: model.Auto, Key: "a"}, {Kind: seq.Set, Actor: model.Auto, Key: "b"}}
			for i := 0; i < c.n; i++ {
				h = append(h, seq.Op{Kind: seq.Begin, Actor: i, Level: level(c.lv, i)})
				k := "a"
				if i%3 == 2 {
					k = "b" // not every transaction's age differs on both keys
				}
				if i%4 == 3 {
					// every fourth overwrite is a deletion: a version that is a marker
					h = append(h, seq.Op{Kind: seq.Delete, Actor: model.Auto, Key: k})
				} else {
					h = append(h, seq.Op{Kind: seq.Set, Actor: model.Auto, Key: k})
				}
			}
			h = append(h, seq.Op{Kind: seq.GC})
			var order []int
			switch c.order {
			case 0:
				for i := 0; i < c.n; i++ {
					order = append(order, i)
				}
			case 1:
				for i := c.n - 1; i >= 0; i-- {
					order = append(order, i)
				}
			case 3:
				// filled in below
			default:
				for i := 0; i < c.n; i += 2 {
					order = append(order, i)
				}
				for i := 1; i < c.n; i += 2 {
					order = append(order, i)
				}
			}
			if c.order == 3 {
				// the collector gets to trim a long history in one pass while the youngest snapshot is open
				for i := 0; i < c.n-1; i++ {
					k := seq.Rollback
					if c.commit {
						k = seq.Commit
					}
					h = append(h, seq.Op{Kind: k, Actor: i})
				}
				h = append(h, seq.Op{Kind: seq.GC}, seq.Op{Kind: seq.Set, Actor: model.Auto, Key: "a"}, seq.Op{Kind: seq.Set, Actor: model.Auto, Key: "b"})
				order = []int{c.n - 1}
			}
			for _, i := range order {
				k := seq.Rollback
				if c.commit {
					k = seq.Commit // read-only transactions: Commit succeeds at every level
				}
				h = append(h, seq.Op{Kind: k, Actor: i}, seq.Op{Kind: seq.GC})
				// the keys go on being written while the younger snapshots are still open
				h = append(h, seq.Op{Kind: seq.Set, Actor: model.Auto, Key: "a"})
			}
			h = append(h, seq.Op{Kind: seq.Set, Actor: model.Auto, Key: "a"}, seq.Op{Kind: seq.GC})
			return h
		}
		fam := &seq.Family{Opt: seq.Options{Slots: maxn, ObsKeys: []string{"a", "b", neverKey}, Spec: spec()}}
		return &enum.Family{
			Count: func() int64 { return int64(len(cases)) },
			Describe: func(i int64) any {
				c := cases[i]
				end := "Rollback"
				if c.commit {
					end = "Commit"
				}
				return map[string]any{"transactions": c.n, "levels": lvNames[c.lv], "end_order": orderNames[c.order], "ended_by": end, "background_settled_after_every_step": c.eager}
			},
			Run: func(i int64) *enum.Outcome {
				c := cases[i]
				hist := history(c)
				res, verdict := seq.RunOne(fam, hist, c.eager)
				o := &enum.Outcome{States: []uint64{uint64(i)}}
				if res != nil {
					o.Steps, o.Checks, o.Infra = int64(res.Steps), res.Obs, res.Infra
					if res.Mismatch != nil {
						o.Mismatch = &enum.Mismatch{What: fmt.Sprintf("%s [history: %v]", res.Mismatch.Error(), seq.HistoryString(hist)), Sig: "ages|" + res.Mismatch.Sig}
					}
				}
				if o.Mismatch == nil && verdict != "" {
					o.Mismatch = &enum.Mismatch{What: verdict, Sig: "ages|scheduler"}
				}
				return o
			},
		}
	})
}
