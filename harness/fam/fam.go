// Package fam defines the history alphabets (families) of the sequential checks.
package fam

import (
	"context"
	"strconv"
	"strings"

	"github.com/glebziz/fs_db/verifh/dbh"
	"github.com/glebziz/fs_db/verifh/model"
	"github.com/glebziz/fs_db/verifh/seq"
)

func params(p string) map[string]string {
	m := map[string]string{}
	for _, kv := range strings.Split(p, ",") {
		if i := strings.IndexByte(kv, '='); i > 0 {
			m[kv[:i]] = kv[i+1:]
		}
	}
	return m
}

func atoi(s string, d int) int {
	if n, err := strconv.Atoi(s); err == nil {
		return n
	}
	return d
}

func levels(s string) []model.Level {
	if s == "" {
		return []model.Level{model.RU, model.RC, model.RR, model.SER}
	}
	var out []model.Level
	for _, w := range strings.Split(s, ".") {
		switch w {
		case "RU":
			out = append(out, model.RU)
		case "RC":
			out = append(out, model.RC)
		case "RR":
			out = append(out, model.RR)
		case "SER":
			out = append(out, model.SER)
		}
	}
	return out
}

var keyNames = []string{"a", "b", "ключ-ü"}

// Lengths around the 2048-byte gRPC chunk and the 32 KiB copy buffer.
var Lengths = []int{-1, 1, 2047, 2048, 2049, 4096, 32767, 32768, 32769, 65537}

const neverKey = "never-written"

// OddKeys: unusual but valid (UTF-8) keys.
var OddKeys = []string{
	"a/b", "/", "//", "../x", ".", "..", " ", "a b", "a ", " a", "\t", "\n", "a\nb", "\x00", "a\x00b", "\x7f",
	"%", "%d%s", "*", "?", "\\", "'", "\"", "file/", "content/", "tx/", "file/00000000-0000-0000-0000-000000000000",
	"A", "aa", "é", "e\u0301", "日本語", "\U0001D11E", "\uFEFFbom", "\u202Ertl",
	strings.Repeat("a", 255), strings.Repeat("a", 256), strings.Repeat("k", 4096), strings.Repeat("k", 65535),
	strings.Repeat("k", 65536), strings.Repeat("ü", 35000),
}

func spec() dbh.Spec { return dbh.Spec{Roots: 1, MaxDirCount: 100, Workers: 1} }

func init() {
	// kv: autocommit operations only (C01).
	seq.Register("kv", func(p string) *seq.Family {
		m := params(p)
		nk := atoi(m["keys"], 3)
		keys := keyNames[:nk]
		f := &seq.Family{Opt: seq.Options{Slots: 0, ObsKeys: append(append([]string{}, keys...), neverKey), Spec: spec(), ReaderObs: true}}
		f.Next = func(_ *model.Model, hist []seq.Op, left int) []seq.Op {
			var out []seq.Op
			for _, k := range keys {
				out = append(out,
					seq.Op{Kind: seq.Set, Actor: model.Auto, Key: k},
					seq.Op{Kind: seq.SetReader, Actor: model.Auto, Key: k},
					seq.Op{Kind: seq.Create, Actor: model.Auto, Key: k, Split: []int{3, 0, 5}},
					seq.Op{Kind: seq.Delete, Actor: model.Auto, Key: k})
			}
			out = append(out, seq.Op{Kind: seq.Set, Actor: model.Auto, Key: ""})
			return out
		}
		return f
	})

	// kv-keys: the key dimension of C01 — every history starts by writing one key of a table of unusual
	// valid-UTF-8 keys (separators, dots, blanks, control characters, NUL, format verbs, the store's own
	// record prefixes, multi-byte runes, case and prefix neighbours, lengths up to 70000 bytes), then
	// continues over that key and its neighbour "a" with writes, deletions and reopenings; all table keys
	// are read after every step.
	seq.Register("kv-keys", func(p string) *seq.Family {
		obs := append(append([]string{}, OddKeys...), "a", neverKey)
		f := &seq.Family{Opt: seq.Options{Slots: 0, ObsKeys: obs, Spec: spec(), ReaderObs: true}}
		f.Next = func(_ *model.Model, hist []seq.Op, left int) []seq.Op {
			var out []seq.Op
			if len(hist) == 0 {
				for _, k := range OddKeys {
					out = append(out, seq.Op{Kind: seq.Set, Actor: model.Auto, Key: k})
				}
				return out
			}
			k := hist[0].Key
			out = append(out,
				seq.Op{Kind: seq.SetReader, Actor: model.Auto, Key: k},
				seq.Op{Kind: seq.Create, Actor: model.Auto, Key: k, Split: []int{3, 5}},
				seq.Op{Kind: seq.Delete, Actor: model.Auto, Key: k},
				seq.Op{Kind: seq.Set, Actor: model.Auto, Key: "a"},
				seq.Op{Kind: seq.Delete, Actor: model.Auto, Key: "a"})
			if hist[len(hist)-1].Kind != seq.Reopen {
				out = append(out, seq.Op{Kind: seq.Reopen, Actor: model.Auto})
			}
			return out
		}
		return f
	})

	// kv-len: short autocommit histories whose last write ranges over all content lengths and all ways
	// of writing (Set, SetReader, Create with boundary splits) (C01, inputs part).
	seq.Register("kv-len", func(p string) *seq.Family {
		keys := keyNames[:2]
		f := &seq.Family{Opt: seq.Options{Slots: 0, ObsKeys: append(append([]string{}, keys...), neverKey), Spec: spec(), ReaderObs: true}}
		f.Next = func(_ *model.Model, hist []seq.Op, left int) []seq.Op {
			if left == 1 {
				return []seq.Op{{Kind: seq.Set, Actor: model.Auto, Key: "a"}} // placeholder, expanded by Variants
			}
			var out []seq.Op
			for _, k := range keys {
				out = append(out, seq.Op{Kind: seq.Set, Actor: model.Auto, Key: k}, seq.Op{Kind: seq.Delete, Actor: model.Auto, Key: k})
			}
			return out
		}
		f.Variants = func(hist []seq.Op) [][]seq.Op {
			var out [][]seq.Op
			add := func(op seq.Op) {
				h := append(append([]seq.Op{}, hist[:len(hist)-1]...), op)
				out = append(out, h)
			}
			for _, n := range Lengths {
				ln := n
				add(seq.Op{Kind: seq.Set, Actor: model.Auto, Key: "a", Len: ln})
				add(seq.Op{Kind: seq.SetReader, Actor: model.Auto, Key: "a", Len: ln})
				if n < 0 {
					n = 0
				}
				splits := [][]int{{n}}
				if n >= 2 {
					splits = append(splits, []int{1, n - 1}, []int{n - 1, 1}, []int{n / 2, 0, n - n/2})
				} else {
					splits = append(splits, []int{0, n})
				}
				for _, s := range splits {
					add(seq.Op{Kind: seq.Create, Actor: model.Auto, Key: "a", Split: s})
				}
			}
			// chunk-size patterns within one write: large, small, medium (and permutations), for the source
			// reader of SetReader and for a paced Create
			// a source that returns its last bytes together with io.EOF (http bodies, section readers do)
			for _, pat := range [][]int{{8}, {1}, {3, 5}, {2048, 1}, {2049}, {32768}, {32768, 32768, 1}, {40000, 7}} {
				add(seq.Op{Kind: seq.SetReader, Actor: model.Auto, Key: "a", Split: pat, EOFWithData: true})
			}
			for _, pat := range [][]int{{5, 1, 3}, {3, 1, 5}, {1, 5, 3}, {3000, 10, 2048}, {2048, 1, 2047, 2049}, {40000, 7, 32768}, {7, 0, 7}} {
				add(seq.Op{Kind: seq.SetReader, Actor: model.Auto, Key: "a", Split: pat})
				add(seq.Op{Kind: seq.Create, Actor: model.Auto, Key: "a", Split: pat, Paced: true})
			}
			return out
		}
		return f
	})

	// iso: transactions of the given levels in up to `slots` slots, autocommit writers, optional GC
	// (C02, C03, C09, C14 share it with different parameters).
	seq.Register("iso", func(p string) *seq.Family {
		m := params(p)
		nk := atoi(m["keys"], 1)
		slots := atoi(m["slots"], 2)
		lv := levels(m["levels"])
		gc := atoi(m["gc"], 1) != 0
		autow := atoi(m["auto"], 1) != 0
		maxw := atoi(m["maxw"], 0)              // max writes per transaction (0: unlimited)
		deflevel := atoi(m["deflevel"], 0) != 0 // also Begin() without a level
		create := atoi(m["create"], 0) != 0     // writes also through SetReader and Create (several Write calls)
		keys := keyNames[:nk]
		f := &seq.Family{Opt: seq.Options{Slots: slots, ObsKeys: append(append([]string{}, keys...), neverKey), Spec: spec()}}
		if m["obs"] == "auto" {
			f.Opt.ObsAutoOnly = true
		}
		f.Opt.MapDesc = atoi(m["mapdesc"], 0) != 0
		f.Next = func(md *model.Model, hist []seq.Op, left int) []seq.Op {
			var out []seq.Op
			if autow {
				for _, k := range keys {
					out = append(out, seq.Op{Kind: seq.Set, Actor: model.Auto, Key: k}, seq.Op{Kind: seq.Delete, Actor: model.Auto, Key: k})
				}
			}
			if s := md.FreeSlot(); s >= 0 {
				for _, l := range lv {
					out = append(out, seq.Op{Kind: seq.Begin, Actor: s, Level: l})
				}
				if deflevel {
					out = append(out, seq.Op{Kind: seq.Begin, Actor: s, Level: model.RC, DefaultLevel: true})
				}
			}
			for _, s := range md.OpenSlots() {
				nw := 0
				for _, ws := range md.Txs[s].Writes {
					nw += len(ws)
				}
				if maxw == 0 || nw < maxw {
					for _, k := range keys {
						out = append(out, seq.Op{Kind: seq.Set, Actor: s, Key: k}, seq.Op{Kind: seq.Delete, Actor: s, Key: k})
						if create {
							out = append(out, seq.Op{Kind: seq.Create, Actor: s, Key: k, Split: []int{3, 5}}, seq.Op{Kind: seq.SetReader, Actor: s, Key: k})
						}
					}
				}
				out = append(out, seq.Op{Kind: seq.Commit, Actor: s}, seq.Op{Kind: seq.Rollback, Actor: s})
			}
			if gc && (len(hist) == 0 || hist[len(hist)-1].Kind != seq.GC) {
				out = append(out, seq.Op{Kind: seq.GC})
			}
			return out
		}
		return f
	})
}

func init() {
	// late: the iso alphabet plus every operation through handles of finished transactions and through
	// a transaction id the database never issued; all live actors (and the finished handles) read
	// after every step; restart at the end (C13).
	seq.Register("late", func(p string) *seq.Family {
		m := params(p)
		slots := atoi(m["slots"], 2)
		lv := levels(m["levels"])
		unknown := atoi(m["unknown"], 1) != 0
		lastOnly := atoi(m["latewrites"], 0) == 0 // latewrites=1: late writes at every position
		noLateWrites := atoi(m["nolatewrites"], 0) != 0
		keys := keyNames[:1]
		f := &seq.Family{Opt: seq.Options{Slots: slots, ObsKeys: append(append([]string{}, keys...), neverKey), Spec: spec(), LateObs: true}}
		f.Opt.Epilogue = func(r *seq.Runner) *seq.Mismatch {
			op := seq.Op{Kind: seq.Restart}
			if mm := r.Apply(op); mm != nil {
				return mm
			}
			return r.Observe(op)
		}
		f.Next = func(md *model.Model, hist []seq.Op, left int) []seq.Op {
			var out []seq.Op
			k := keys[0]
			out = append(out, seq.Op{Kind: seq.Set, Actor: model.Auto, Key: k})
			if s := md.FreeSlot(); s >= 0 {
				for _, l := range lv {
					out = append(out, seq.Op{Kind: seq.Begin, Actor: s, Level: l})
				}
			}
			for _, s := range md.OpenSlots() {
				out = append(out, seq.Op{Kind: seq.Set, Actor: s, Key: k}, seq.Op{Kind: seq.Commit, Actor: s}, seq.Op{Kind: seq.Rollback, Actor: s})
			}
			late := func(a int) {
				out = append(out,
					seq.Op{Kind: seq.GetOp, Actor: a, Key: k},
					seq.Op{Kind: seq.GetReaderOp, Actor: a, Key: k},
					seq.Op{Kind: seq.GetKeysOp, Actor: a})
				if (left == 1 || !lastOnly) && !noLateWrites {
					// late writes are known to succeed (D5, known finding) and end the history there: as the
					// last operation they do not hide what follows
					out = append(out,
						seq.Op{Kind: seq.Set, Actor: a, Key: k},
						seq.Op{Kind: seq.SetReader, Actor: a, Key: k},
						seq.Op{Kind: seq.Create, Actor: a, Key: k, Split: []int{4, 4}},
						seq.Op{Kind: seq.Delete, Actor: a, Key: k})
				}
				if a >= 0 {
					out = append(out, seq.Op{Kind: seq.Commit, Actor: a}, seq.Op{Kind: seq.Rollback, Actor: a})
				} else {
					// ending a transaction no Begin returned: a never-issued id, the all-zero id, no id at all
					for v := 0; v < 3; v++ {
						out = append(out, seq.Op{Kind: seq.Commit, Actor: a, IDVar: v}, seq.Op{Kind: seq.Rollback, Actor: a, IDVar: v})
					}
				}
			}
			for s := range md.Txs {
				if md.Finished(s) {
					late(s)
				}
			}
			if unknown {
				late(seq.Unknown)
			}
			return out
		}
		return f
	})

	// disk: the iso alphabet (no GC inside) followed by the reclamation epilogue: end every open
	// transaction, settle, one GC pass, settle, then walk the roots (C14). close=1: Close right after the
	// history with work possibly pending, restart, then the same epilogue.
	seq.Register("disk", func(p string) *seq.Family {
		m := params(p)
		// collection passes inside the history only on request (gc=1): the epilogue always runs one
		gcp := ",gc=0"
		if atoi(m["gc"], 0) != 0 {
			gcp = ""
		}
		base := seq.Lookup("iso", p+gcp)
		closeFirst := atoi(m["close"], 0) != 0
		f := &seq.Family{Opt: base.Opt, Next: base.Next}
		f.Opt.Epilogue = func(r *seq.Runner) *seq.Mismatch { return DiskEpilogue(r, closeFirst) }
		return f
	})

	// heldreader: GC-free histories with a reader opened at one position (through the autocommit caller or
	// an open transaction) and one collection pass at or after it; the reader is drained at the end of
	// the history and must deliver the whole value it was opened on (C09: a read in progress is a read).
	seq.Register("heldreader", func(p string) *seq.Family {
		m := params(p)
		base := seq.Lookup("iso", p+",gc=0")
		nk := atoi(m["keys"], 1)
		slots := atoi(m["slots"], 2)
		f := &seq.Family{Opt: base.Opt, Next: base.Next}
		f.Variants = func(hist []seq.Op) [][]seq.Op {
			var out [][]seq.Op
			n := len(hist)
			for pos := 0; pos <= n; pos++ {
				for a := model.Auto; a < slots; a++ {
					if a >= 0 {
						// only where that slot holds an open transaction (begun before pos, not ended)
						open := false
						for _, op := range hist[:pos] {
							if op.Actor == a {
								switch op.Kind {
								case seq.Begin:
									open = true
								case seq.Commit, seq.Rollback:
									open = false
								}
							}
						}
						if !open {
							continue
						}
					}
					for _, k := range keyNames[:nk] {
						for g := pos; g <= n; g++ {
							h := make([]seq.Op, 0, n+2)
							h = append(h, hist[:pos]...)
							h = append(h, seq.Op{Kind: seq.HoldReader, Actor: a, Key: k})
							h = append(h, hist[pos:g]...)
							h = append(h, seq.Op{Kind: seq.GC})
							h = append(h, hist[g:]...)
							out = append(out, h)
						}
					}
				}
			}
			return out
		}
		return f
	})

	// iso-restart: the iso alphabet; at the end of every history the database is closed, a new process
	// opens it, and everything is read again (C05: what was committed, by whatever interleaving of
	// transactions and autocommit writes, is what the next process sees; twice, since the first reopening
	// may itself rewrite state).
	seq.Register("iso-restart", func(p string) *seq.Family {
		base := seq.Lookup("iso", p+",gc=0")
		f := &seq.Family{Opt: base.Opt, Next: base.Next}
		f.Opt.Epilogue = func(r *seq.Runner) *seq.Mismatch {
			for i := 0; i < 2; i++ {
				op := seq.Op{Kind: seq.Restart, Actor: model.Auto}
				if mm := r.Apply(op); mm != nil {
					return mm
				}
				if mm := r.Observe(op); mm != nil {
					return mm
				}
			}
			return nil
		}
		return f
	})

	// heldwriter: GC-free histories during which the autocommit caller keeps a created file open: Create
	// and a first Write at one position, the last Write and Close at the same or a later one, optionally
	// a collection pass right after the first or right before the second; the write takes effect at Close
	// (C01: writes in progress; whatever happens in between — other writes of the key, transactions
	// beginning and ending, a collection pass — the closed file is the key's value, whole).
	seq.Register("heldwriter", func(p string) *seq.Family {
		m := params(p)
		base := seq.Lookup("iso", p+",gc=0")
		nk := atoi(m["keys"], 1)
		f := &seq.Family{Opt: base.Opt, Next: base.Next}
		f.Opt.ReaderObs = true
		f.Variants = func(hist []seq.Op) [][]seq.Op {
			var out [][]seq.Op
			n := len(hist)
			for _, k := range keyNames[:nk] {
				for pos := 0; pos <= n; pos++ {
					for q := pos; q <= n; q++ {
						for gc := 0; gc < 3; gc++ {
							h := make([]seq.Op, 0, n+3)
							h = append(h, hist[:pos]...)
							h = append(h, seq.Op{Kind: seq.CreateBegin, Actor: model.Auto, Key: k})
							ref := len(h)
							if gc == 1 {
								h = append(h, seq.Op{Kind: seq.GC})
							}
							h = append(h, hist[pos:q]...)
							if gc == 2 {
								h = append(h, seq.Op{Kind: seq.GC})
							}
							h = append(h, seq.Op{Kind: seq.CreateEnd, Actor: model.Auto, Key: k, Ref: ref})
							h = append(h, hist[q:]...)
							out = append(out, h)
						}
					}
				}
			}
			return out
		}
		return f
	})

	// gcdiff: GC-free histories with the collector inserted at every subset (size <= maxgc) of positions;
	// all actors read after every step (C09).
	seq.Register("gcdiff", func(p string) *seq.Family {
		m := params(p)
		base := seq.Lookup("iso", p+",gc=0")
		maxgc := atoi(m["maxgc"], 2)
		f := &seq.Family{Opt: base.Opt, Next: base.Next}
		f.Opt.HeldReaders = true
		f.Variants = func(hist []seq.Op) [][]seq.Op {
			n := len(hist) + 1 // positions: before op i (0..len-1) and at the end
			var out [][]seq.Op
			var rec func(pos int, chosen []int)
			rec = func(pos int, chosen []int) {
				if pos == n {
					if len(chosen) == 0 {
						return // the GC-free run is the model itself; it is covered by C02
					}
					var h []seq.Op
					ci := 0
					for i := 0; i <= len(hist); i++ {
						if ci < len(chosen) && chosen[ci] == i {
							h = append(h, seq.Op{Kind: seq.GC})
							ci++
						}
						if i < len(hist) {
							h = append(h, hist[i])
						}
					}
					out = append(out, h)
					return
				}
				rec(pos+1, chosen)
				if len(chosen) < maxgc {
					rec(pos+1, append(chosen[:len(chosen):len(chosen)], pos))
				}
			}
			rec(0, nil)
			return out
		}
		return f
	})
}

// gRPC variants of the families: same alphabets, the client is external.Open against a real server.
func grpcVariant(name string, gopen func(dbh.Spec) (*dbh.Inst, error), unknownCtx func(context.Context, string) context.Context) {
	seq.Register("grpc-"+name, func(p string) *seq.Family {
		f := seq.Lookup(name, p)
		nf := *f
		nf.Opt.OpenFn = gopen
		nf.Opt.UnknownCtx = unknownCtx
		nf.Opt.Free = true
		nf.Opt.Epilogue = nil
		return &nf
	})
}

// RegisterGRPC is called by the gRPC tier with its opener (avoids an import cycle).
func RegisterGRPC(gopen func(dbh.Spec) (*dbh.Inst, error), unknownCtx func(context.Context, string) context.Context) {
	for _, n := range []string{"kv", "kv-len", "kv-keys", "iso", "late"} {
		grpcVariant(n, gopen, unknownCtx)
	}
}

// Real-engine variants: the same alphabets replayed on the real Badger engine, real files, real
// goroutines and real time (no scheduler): the conformance tier binding the virtual platform to reality.
func init() {
	for _, n := range []string{"kv", "kv-len", "iso", "late"} {
		name := n
		seq.Register("real-"+name, func(p string) *seq.Family {
			f := seq.Lookup(name, p)
			nf := *f
			nf.Opt.Free = true
			nf.Opt.OpenFn = dbh.OpenReal
			return &nf
		})
	}
}
