package fam

import (
	"bytes"
	"fmt"
	"os"
	"path/filepath"
	"sort"
	"strings"

	"github.com/google/uuid"

	"github.com/glebziz/fs_db/verifh/dbh"
	"github.com/glebziz/fs_db/verifh/model"
	"github.com/glebziz/fs_db/verifh/seq"
	"github.com/glebziz/fs_db/verifrt/vrt"
)

// DiskEpilogue ends every open transaction, lets deletions drain, runs one collection pass and then
// requires the roots to hold exactly one content file per key that Get returns (C14).
func DiskEpilogue(r *seq.Runner, closeFirst bool) *seq.Mismatch {
	if closeFirst {
		op := seq.Op{Kind: seq.Restart}
		if m := r.Apply(op); m != nil {
			return m
		}
	}
	for _, s := range r.M.OpenSlots() {
		if m := r.Apply(seq.Op{Kind: seq.Rollback, Actor: s}); m != nil {
			return m
		}
	}
	vrt.Quiesce()
	dbh.GC()
	vrt.Quiesce()
	last := seq.Op{Kind: seq.GC}
	if m := r.Observe(last); m != nil {
		return m
	}
	return CheckDisk(r, "epilogue")
}

// CheckDisk compares the regular files below the roots with the committed values of the model.
func CheckDisk(r *seq.Runner, when string) *seq.Mismatch {
	want := map[string]string{} // content -> key
	for k, v := range r.M.Committed() {
		want[string(dbh.Content(v.ID, r.Lens[v.ID]))] = k
	}
	var extra, misplaced []string
	found := map[string]bool{}
	for i, root := range r.In.Roots {
		err := filepath.Walk(root, func(p string, info os.FileInfo, err error) error {
			if err != nil {
				return err
			}
			if !info.Mode().IsRegular() {
				return nil
			}
			rel, _ := filepath.Rel(root, p)
			parts := strings.Split(rel, string(filepath.Separator))
			if len(parts) != 2 || uuid.Validate(parts[0]) != nil {
				misplaced = append(misplaced, fmt.Sprintf("root%d/%s", i, rel))
			}
			b, rerr := os.ReadFile(p)
			if rerr != nil {
				return rerr
			}
			if _, ok := want[string(b)]; ok && !found[string(b)] {
				found[string(b)] = true
				return nil
			}
			extra = append(extra, fmt.Sprintf("root%d/%s(%s)", i, rel, describeContent(r, b)))
			return nil
		})
		if err != nil {
			return &seq.Mismatch{Step: r.Step, Op: when, What: "walking the roots: " + err.Error(), Sig: "disk|walk|error"}
		}
	}
	if len(misplaced) > 0 {
		return &seq.Mismatch{Step: r.Step, Op: when, What: fmt.Sprintf("content files outside <root>/<uuid>/: %v", misplaced), Sig: "disk|misplaced-file|"}
	}
	if len(extra) > 0 {
		sort.Strings(extra)
		return &seq.Mismatch{Step: r.Step, Op: when, What: fmt.Sprintf("%d unreachable content file(s) left on disk after quiescence and a collection pass: %v", len(extra), extra),
			Sig: "disk|leaked-content|" + leakClass(r, extra)}
	}
	for c, k := range want {
		if !found[c] {
			return &seq.Mismatch{Step: r.Step, Op: when, What: fmt.Sprintf("no content file holds the committed value of key %q", k), Sig: "disk|missing-content|"}
		}
	}
	return nil
}

func describeContent(r *seq.Runner, b []byte) string {
	for id, n := range r.Lens {
		if n == len(b) && bytes.Equal(dbh.Content(id, n), b) {
			return fmt.Sprintf("write#%d", id)
		}
	}
	return fmt.Sprintf("%d unknown bytes", len(b))
}

func leakClass(r *seq.Runner, extra []string) string {
	_ = model.OK
	return "count"
}
