// Package faults is the inline half of C10: every single fault (and pairs on distinct roots) at every
// position of a write — the source reader failing (optionally after a short read), a file write
// returning no-space fully or after a partial write — for every content length of the boundary set,
// through Set, SetReader and Create, with 1-3 roots, every shuffle order and free-space ordering.
package faults

import (
	"bytes"
	"context"
	"errors"
	"fmt"
	"io"
	"strings"
	"syscall"

	"github.com/glebziz/fs_db"
	"github.com/glebziz/fs_db/verifh/dbh"
	"github.com/glebziz/fs_db/verifh/enum"
	"github.com/glebziz/fs_db/verifh/model"
	"github.com/glebziz/fs_db/verifh/seq"
	"github.com/glebziz/fs_db/verifrt/disk"
	"github.com/glebziz/fs_db/verifrt/rand"
	"github.com/glebziz/fs_db/verifrt/vrt"
)

var lengths = []int{0, 1, 2047, 2048, 2049, 4096, 32767, 32768, 32769, 65537}

var errSource = errors.New("injected source reader failure")

type wfault struct {
	Root    int `json:"root"`
	Ordinal int `json:"write_ordinal"` // 1-based among the writes to files under that root; -1: last
	Partial int `json:"partial"`       // 0 none, 1 one byte, 2 half, 3 all but one
}

type plan struct {
	API       string   `json:"api"`
	Len       int      `json:"length"`
	Roots     int      `json:"roots"`
	FreeOrder int      `json:"free_space_order"` // index into the orderings of free space over roots
	Perm      int      `json:"shuffle_permutation"`
	Prev      bool     `json:"key_had_a_value"`
	ReadFail  int      `json:"source_read_fails_at_call"` // 0: never; -1: at the last call
	ShortRead bool     `json:"short_read_before"`
	Writes    []wfault `json:"write_faults"`
}

// faultyReader fails at the n-th Read call; before that it may return short reads.
type faultyReader struct {
	data   []byte
	off    int
	calls  int
	failAt int
	short  bool
	fired  *bool
}

func (r *faultyReader) Read(p []byte) (int, error) {
	r.calls++
	if r.failAt > 0 && r.calls == r.failAt {
		*r.fired = true
		return 0, errSource
	}
	if r.off >= len(r.data) {
		return 0, io.EOF
	}
	n := copy(p, r.data[r.off:])
	if r.short && n > 1 && r.calls == r.failAt-1 {
		n = n / 2
	}
	r.off += n
	return n, nil
}

func freeOrders(roots int) [][]uint64 {
	const big, mid, small = 3 << 30, 2 << 30, 1 << 30
	switch roots {
	case 1:
		return [][]uint64{{big}}
	case 2:
		return [][]uint64{{big, mid}, {mid, big}, {mid, mid}}
	}
	return [][]uint64{{big, mid, small}, {small, mid, big}, {mid, big, small}, {mid, mid, mid}}
}

func fact(n int) int {
	f := 1
	for i := 2; i <= n; i++ {
		f *= i
	}
	return f
}

func numWrites(n int) int {
	if n == 0 {
		return 0
	}
	return (n + 32767) / 32768
}

func buildPlans(quick bool) []plan {
	var out []plan
	apis := []string{"SetReader", "Create", "Set"}
	lens := lengths
	if quick {
		lens = []int{0, 1, 2049, 32768, 32769, 65537}
	}
	for _, api := range apis {
		for _, ln := range lens {
			for roots := 1; roots <= 3; roots++ {
				if quick && roots == 3 && ln != 65537 && ln != 32769 {
					continue
				}
				for fo := range freeOrders(roots) {
					for perm := 0; perm < fact(roots); perm++ {
						for _, prev := range []bool{true, false} {
							base := plan{API: api, Len: ln, Roots: roots, FreeOrder: fo, Perm: perm, Prev: prev}
							if roots == 1 && fo == 0 && perm == 0 {
								out = append(out, base) // fault-free
								if api == "SetReader" {
									for _, at := range []int{1, 2, 3, -1} {
										for _, sh := range []bool{false, true} {
											p := base
											p.ReadFail, p.ShortRead = at, sh
											out = append(out, p)
										}
									}
								}
							}
							nw := numWrites(ln)
							if nw == 0 {
								continue
							}
							ords := []int{1}
							if nw > 1 {
								ords = append(ords, 2, -1)
							}
							for r := 0; r < roots; r++ {
								for _, ord := range ords {
									for part := 0; part <= 3; part++ {
										if ln == 1 && part != 0 {
											continue
										}
										p := base
										p.Writes = []wfault{{Root: r, Ordinal: ord, Partial: part}}
										out = append(out, p)
										// pairs on distinct roots (same ordinal, the second fault complete or partial)
										if !prev && ord == 1 {
											for r2 := r + 1; r2 < roots; r2++ {
												for _, part2 := range []int{0, 2} {
													q := p
													q.Writes = []wfault{{Root: r, Ordinal: ord, Partial: part}, {Root: r2, Ordinal: ord, Partial: part2}}
													out = append(out, q)
												}
											}
										}
									}
								}
							}
						}
					}
				}
			}
		}
	}
	return out
}

func fm(what, sig string) *enum.Mismatch { return &enum.Mismatch{What: what, Sig: "fault|" + sig} }

func run(p plan) *enum.Outcome {
	o := &enum.Outcome{}
	verdict := seq.RunManaged(func() {
		vrt.SetBranching(false)
		dbh.FreshWorld()
		in, err := dbh.Open(dbh.Spec{Roots: p.Roots, MaxDirCount: 100, Workers: 1})
		if err != nil {
			o.Infra = err.Error()
			return
		}
		defer func() {
			vrt.WriteFault = nil
			rand.ShuffleHook = nil
			in.Close()
		}()
		ctx := context.Background()
		const key = "k"
		old := dbh.Content(1, 8)
		if p.Prev {
			if err := in.DB.Set(ctx, key, old); err != nil {
				o.Infra = "set-up write failed: " + err.Error()
				return
			}
		}
		vrt.Quiesce()
		free := freeOrders(p.Roots)[p.FreeOrder]
		for i, r := range in.Roots {
			disk.SetFree(r, free[i])
		}
		rand.ShuffleHook = func(n int) int { return p.Perm % fact(n) }
		// write faults
		counts := make([]int, p.Roots)
		fired := make([]bool, len(p.Writes))
		nw := numWrites(p.Len)
		vrt.WriteFault = func(path string, b []byte) (int, error, bool) {
			root := -1
			for i, r := range in.Roots {
				if strings.HasPrefix(path, r+"/") {
					root = i
				}
			}
			if root < 0 {
				return 0, nil, false
			}
			counts[root]++
			for fi, f := range p.Writes {
				ord := f.Ordinal
				if ord < 0 {
					ord = nw
				}
				if f.Root == root && counts[root] == ord && !fired[fi] {
					fired[fi] = true
					k := 0
					switch f.Partial {
					case 1:
						k = 1
					case 2:
						k = len(b) / 2
					case 3:
						k = len(b) - 1
					}
					if k >= len(b) {
						k = len(b) - 1
					}
					if k < 0 {
						k = 0
					}
					return k, syscall.ENOSPC, true
				}
			}
			return 0, nil, false
		}
		content := dbh.Content(2, p.Len)
		readFired := false
		var werr error
		o.Steps++
		switch p.API {
		case "Set":
			werr = in.DB.Set(ctx, key, content)
		case "SetReader":
			fr := &faultyReader{data: content, failAt: p.ReadFail, short: p.ShortRead, fired: &readFired}
			if p.ReadFail < 0 {
				// the call that would have returned the last bytes
				fr.failAt = max(1, numWrites(p.Len))
			}
			werr = in.DB.SetReader(ctx, key, fr)
		case "Create":
			f, err := in.DB.Create(ctx, key)
			if err == nil {
				half := p.Len / 2
				_, err = f.Write(content[:half])
				if err == nil {
					_, err = f.Write(content[half:])
				}
				cerr := f.Close()
				if err == nil {
					err = cerr
				}
			}
			werr = err
		}
		vrt.WriteFault = nil
		for i, r := range in.Roots {
			_ = i
			disk.SetFree(r, disk.DefaultFree)
		}
		vrt.Quiesce()
		got, gerr := in.DB.Get(ctx, key)
		o.Checks++
		desc := fmt.Sprintf("%+v", p)
		anyFired := readFired
		for _, f := range fired {
			anyFired = anyFired || f
		}
		if werr == nil {
			if gerr != nil || !bytes.Equal(got, content) {
				d := "error " + dbh.ShortErr(gerr)
				if gerr == nil {
					d = dbh.Describe(got, content)
				}
				o.Mismatch = fm(fmt.Sprintf("write reported success but the stored content is %s of the source (plan %s)", d, desc), "success-but-content-"+word(d))
				return
			}
		} else {
			if !anyFired {
				o.Mismatch = fm(fmt.Sprintf("write failed (%s) although no fault was injected (plan %s)", dbh.ShortErr(werr), desc), "spurious-failure")
				return
			}
			// the key keeps the value it had before
			if p.Prev {
				if gerr != nil || !bytes.Equal(got, old) {
					d := "error " + dbh.ShortErr(gerr)
					if gerr == nil {
						d = dbh.Describe(got, old) + "/" + dbh.Describe(got, content) + " of old/new"
					}
					o.Mismatch = fm(fmt.Sprintf("write failed (%s) but the key no longer has its previous value: %s (plan %s)", dbh.ShortErr(werr), d, desc), "failure-left-a-trace")
					return
				}
			} else if dbh.Class(gerr) != model.ErrNotFound {
				o.Mismatch = fm(fmt.Sprintf("write failed (%s) but the key now reads %d bytes / %s (plan %s)", dbh.ShortErr(werr), len(got), dbh.ShortErr(gerr), desc), "failure-left-a-trace")
				return
			}
			if readFired && !errors.Is(werr, errSource) {
				o.Mismatch = fm(fmt.Sprintf("source reader failed but the returned error does not wrap it: %s (plan %s)", dbh.ShortErr(werr), desc), "error-class")
				return
			}
		}
		// continuation guarantee: one no-space fault on root r and another root reporting more free space
		if len(p.Writes) == 1 && !readFired && p.ReadFail == 0 {
			r := p.Writes[0].Root
			more := false
			for i := range free {
				if i != r && free[i] > free[r] {
					more = true
				}
			}
			if more && werr != nil {
				o.Mismatch = fm(fmt.Sprintf("root %d ran out of space and another root reports more free space, but the write failed: %s (plan %s)", r, dbh.ShortErr(werr), desc), "no-continuation-on-other-root")
				return
			}
			if !more && werr != nil && fired[0] && !errors.Is(werr, fs_db.ErrNoFreeSpace) {
				o.Mismatch = fm(fmt.Sprintf("no root can take the content but the error is not ErrNoFreeSpace: %s (plan %s)", dbh.ShortErr(werr), desc), "error-class")
				return
			}
		}
	})
	if verdict != "" && o.Mismatch == nil && o.Infra == "" {
		o.Mismatch = fm(verdict, "scheduler-"+strings.SplitN(verdict, ":", 2)[0])
	}
	return o
}

func word(d string) string {
	if i := strings.IndexAny(d, "( "); i > 0 {
		return d[:i]
	}
	return d
}

func init() {
	enum.Register("faults", func(p string) *enum.Family {
		plans := buildPlans(p == "quick")
		return &enum.Family{
			Count:    func() int64 { return int64(len(plans)) },
			Describe: func(i int64) any { return plans[i] },
			Run: func(i int64) *enum.Outcome {
				o := run(plans[i])
				o.States = []uint64{uint64(i)}
				return o
			},
		}
	})
}
