// Package context is the verification shim for the standard context package. Contexts themselves are
// the real ones; cancellations made through this package additionally start pending AfterFunc
// callbacks as managed threads, and deadlines run on the virtual clock, so that under the scheduler no
// unmanaged goroutine ever wakes a managed one.
package context

import (
	stdctx "context"
	stdtime "time"

	"github.com/glebziz/fs_db/verifrt/vrt"
)

type (
	Context         = stdctx.Context
	CancelFunc      = stdctx.CancelFunc
	CancelCauseFunc = stdctx.CancelCauseFunc
)

var (
	Canceled         = stdctx.Canceled
	DeadlineExceeded = stdctx.DeadlineExceeded
)

func Background() Context                            { return stdctx.Background() }
func TODO() Context                                  { return stdctx.TODO() }
func WithValue(parent Context, key, val any) Context { return stdctx.WithValue(parent, key, val) }
func WithoutCancel(parent Context) Context           { return stdctx.WithoutCancel(parent) }
func Cause(c Context) error                          { return stdctx.Cause(c) }

// pctx makes Err() — a poll of the cancellation state that races with cancel() — a scheduling point.
// Embedding keeps Value() reaching the real cancelCtx, so children attach to it directly.
type pctx struct{ Context }

func (p pctx) Err() error {
	vrt.Point(vrt.OpAtomic, nil)
	return p.Context.Err()
}

func wrap(c Context) Context {
	if !vrt.Managed() {
		return c
	}
	return pctx{c}
}

func WithCancel(parent Context) (Context, CancelFunc) {
	c, cancel := stdctx.WithCancel(parent)
	return wrap(c), func() {
		vrt.CheckAbort()
		cancel()
		vrt.AfterCancel()
	}
}

func WithCancelCause(parent Context) (Context, CancelCauseFunc) {
	c, cancel := stdctx.WithCancelCause(parent)
	return wrap(c), func(cause error) {
		vrt.CheckAbort()
		cancel(cause)
		vrt.AfterCancel()
	}
}

type deadlineCtx struct {
	Context
	deadline stdtime.Time
}

func (d *deadlineCtx) Deadline() (stdtime.Time, bool) { return d.deadline, true }

func WithDeadline(parent Context, d stdtime.Time) (Context, CancelFunc) {
	return WithDeadlineCause(parent, d, nil)
}

func WithDeadlineCause(parent Context, d stdtime.Time, cause error) (Context, CancelFunc) {
	if !vrt.Managed() {
		return stdctx.WithDeadlineCause(parent, d, cause)
	}
	if cur, ok := parent.Deadline(); ok && cur.Before(d) {
		return WithCancel(parent)
	}
	c, cancel := stdctx.WithCancelCause(parent)
	if cause == nil {
		cause = DeadlineExceeded
	}
	dur := d.Sub(vrt.Now())
	vt := vrt.AddTimer(dur, 0, func() {
		cancel(cause)
		vrt.AfterCancel()
	})
	return &deadlineCtx{Context: c, deadline: d}, func() {
		vrt.CheckAbort()
		vrt.StopTimer(vt)
		cancel(Canceled)
		vrt.AfterCancel()
	}
}

func WithTimeout(parent Context, timeout stdtime.Duration) (Context, CancelFunc) {
	if !vrt.Managed() {
		return stdctx.WithTimeout(parent, timeout)
	}
	return WithDeadline(parent, vrt.Now().Add(timeout))
}

func WithTimeoutCause(parent Context, timeout stdtime.Duration, cause error) (Context, CancelFunc) {
	if !vrt.Managed() {
		return stdctx.WithTimeoutCause(parent, timeout, cause)
	}
	return WithDeadlineCause(parent, vrt.Now().Add(timeout), cause)
}

func AfterFunc(ctx Context, f func()) (stop func() bool) {
	if !vrt.Managed() {
		return stdctx.AfterFunc(ctx, f)
	}
	return vrt.RegisterAfterFunc(func() bool { return ctx.Err() != nil }, f)
}
