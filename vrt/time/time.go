// Package time is the verification shim for the standard time package: the whole API re-exported,
// with timers, sleeping and the clock on the vrt virtual clock when a scheduler is attached.
package time

import (
	"reflect"
	stdtime "time"

	"github.com/glebziz/fs_db/verifrt/vrt"
)

type (
	Duration   = stdtime.Duration
	Time       = stdtime.Time
	Month      = stdtime.Month
	Weekday    = stdtime.Weekday
	Location   = stdtime.Location
	ParseError = stdtime.ParseError
)

const (
	Nanosecond  = stdtime.Nanosecond
	Microsecond = stdtime.Microsecond
	Millisecond = stdtime.Millisecond
	Second      = stdtime.Second
	Minute      = stdtime.Minute
	Hour        = stdtime.Hour

	Layout      = stdtime.Layout
	ANSIC       = stdtime.ANSIC
	UnixDate    = stdtime.UnixDate
	RubyDate    = stdtime.RubyDate
	RFC822      = stdtime.RFC822
	RFC822Z     = stdtime.RFC822Z
	RFC850      = stdtime.RFC850
	RFC1123     = stdtime.RFC1123
	RFC1123Z    = stdtime.RFC1123Z
	RFC3339     = stdtime.RFC3339
	RFC3339Nano = stdtime.RFC3339Nano
	Kitchen     = stdtime.Kitchen
	Stamp       = stdtime.Stamp
	StampMilli  = stdtime.StampMilli
	StampMicro  = stdtime.StampMicro
	StampNano   = stdtime.StampNano
	DateTime    = stdtime.DateTime
	DateOnly    = stdtime.DateOnly
	TimeOnly    = stdtime.TimeOnly

	January   = stdtime.January
	February  = stdtime.February
	March     = stdtime.March
	April     = stdtime.April
	May       = stdtime.May
	June      = stdtime.June
	July      = stdtime.July
	August    = stdtime.August
	September = stdtime.September
	October   = stdtime.October
	November  = stdtime.November
	December  = stdtime.December

	Sunday    = stdtime.Sunday
	Monday    = stdtime.Monday
	Tuesday   = stdtime.Tuesday
	Wednesday = stdtime.Wednesday
	Thursday  = stdtime.Thursday
	Friday    = stdtime.Friday
	Saturday  = stdtime.Saturday
)

var (
	UTC   = stdtime.UTC
	Local = stdtime.Local
)

func ParseDuration(s string) (Duration, error) { return stdtime.ParseDuration(s) }
func Parse(layout, value string) (Time, error) { return stdtime.Parse(layout, value) }
func ParseInLocation(l, v string, loc *Location) (Time, error) {
	return stdtime.ParseInLocation(l, v, loc)
}
func Date(y int, m Month, d, h, mi, s, ns int, loc *Location) Time {
	return stdtime.Date(y, m, d, h, mi, s, ns, loc)
}
func Unix(sec, nsec int64) Time                   { return stdtime.Unix(sec, nsec) }
func UnixMilli(ms int64) Time                     { return stdtime.UnixMilli(ms) }
func UnixMicro(us int64) Time                     { return stdtime.UnixMicro(us) }
func FixedZone(name string, off int) *Location    { return stdtime.FixedZone(name, off) }
func LoadLocation(name string) (*Location, error) { return stdtime.LoadLocation(name) }

func Now() Time             { return vrt.Now() }
func Since(t Time) Duration { return Now().Sub(t) }
func Until(t Time) Duration { return t.Sub(Now()) }

// Timer mirrors time.Timer.
type Timer struct {
	C <-chan Time

	real *stdtime.Timer
	c    chan Time
	vt   *vrt.VTimer
	f    func()
}

func newVTimer(d Duration, f func()) *Timer {
	t := &Timer{f: f}
	if f == nil {
		t.c = make(chan Time, 1)
		t.C = t.c
	}
	t.arm(d)
	return t
}

func (t *Timer) arm(d Duration) {
	var p uintptr
	if t.c != nil {
		p = reflect.ValueOf(t.c).Pointer()
	}
	t.vt = vrt.AddTimer(d, p, func() {
		if t.f != nil {
			vrt.GoNamed("timer-func", t.f)
			return
		}
		select {
		case t.c <- vrt.Now():
		default:
		}
	})
}

func NewTimer(d Duration) *Timer {
	if !vrt.Managed() {
		rt := stdtime.NewTimer(d)
		return &Timer{C: rt.C, real: rt}
	}
	return newVTimer(d, nil)
}

func AfterFunc(d Duration, f func()) *Timer {
	if !vrt.Managed() {
		return &Timer{real: stdtime.AfterFunc(d, f)}
	}
	return newVTimer(d, f)
}

func After(d Duration) <-chan Time {
	if !vrt.Managed() {
		return stdtime.After(d)
	}
	return newVTimer(d, nil).C
}

func (t *Timer) Stop() bool {
	if t.real != nil {
		return t.real.Stop()
	}
	return vrt.StopTimer(t.vt)
}

func (t *Timer) Reset(d Duration) bool {
	if t.real != nil {
		return t.real.Reset(d)
	}
	was := vrt.StopTimer(t.vt)
	t.arm(d)
	return was
}

func Sleep(d Duration) {
	if !vrt.Managed() {
		stdtime.Sleep(d)
		return
	}
	vrt.Recv(newVTimer(d, nil).C)
}

// Ticker mirrors time.Ticker.
type Ticker struct {
	C <-chan Time

	real    *stdtime.Ticker
	c       chan Time
	d       Duration
	vt      *vrt.VTimer
	stopped bool
}

func NewTicker(d Duration) *Ticker {
	if d <= 0 {
		panic("non-positive interval for NewTicker")
	}
	if !vrt.Managed() {
		rt := stdtime.NewTicker(d)
		return &Ticker{C: rt.C, real: rt}
	}
	t := &Ticker{c: make(chan Time, 1), d: d}
	t.C = t.c
	t.arm()
	return t
}

func (t *Ticker) arm() {
	t.vt = vrt.AddTimer(t.d, reflect.ValueOf(t.c).Pointer(), func() {
		select {
		case t.c <- vrt.Now():
		default:
		}
		if !t.stopped {
			t.arm()
		}
	})
}

func (t *Ticker) Stop() {
	if t.real != nil {
		t.real.Stop()
		return
	}
	t.stopped = true
	vrt.StopTimer(t.vt)
}

func (t *Ticker) Reset(d Duration) {
	if t.real != nil {
		t.real.Reset(d)
		return
	}
	vrt.StopTimer(t.vt)
	t.d = d
	t.stopped = false
	t.arm()
}

func Tick(d Duration) <-chan Time {
	if d <= 0 {
		return nil
	}
	return NewTicker(d).C
}
