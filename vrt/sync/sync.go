// Package sync is the verification shim for the standard sync package: same API, but under the
// vrt scheduler every blocking or observing operation is a scheduling point; with no scheduler
// attached every type delegates to the real primitive it embeds.
package sync

import (
	stdsync "sync"
	"unsafe"

	"github.com/glebziz/fs_db/verifrt/vrt"
)

type Locker = stdsync.Locker
type Map = stdsync.Map
type Pool = stdsync.Pool

// ------------------------------------------------------------------ Mutex

type Mutex struct {
	real  stdsync.Mutex
	held  bool
	tried bool // a TryLock was applied: its result depends on when releases happen
	owner int
}

//go:norace
func (m *Mutex) VrtEnabled(kind vrt.OpKind, t *vrt.Thread) bool {
	if kind == vrt.OpLock {
		return !m.held
	}
	return true
}

//go:norace
func (m *Mutex) Lock() {
	if !vrt.Managed() {
		m.real.Lock()
		return
	}
	vrt.Point(vrt.OpLock, m)
	m.held = true
	m.owner = vrt.Cur().ID
	vrt.RaceAcquire(unsafe.Pointer(m))
}

//go:norace
func (m *Mutex) TryLock() bool {
	if !vrt.Managed() {
		return m.real.TryLock()
	}
	m.tried = true
	vrt.Point(vrt.OpTryLock, m)
	if m.held {
		return false
	}
	m.held = true
	m.owner = vrt.Cur().ID
	vrt.RaceAcquire(unsafe.Pointer(m))
	return true
}

//go:norace
func (m *Mutex) Unlock() {
	if !vrt.Managed() {
		m.real.Unlock()
		return
	}
	vrt.CheckAbort()
	if m.tried {
		vrt.Point(vrt.OpUnlock, nil)
	}
	if !m.held {
		panic("sync: unlock of unlocked mutex")
	}
	vrt.RaceRelease(unsafe.Pointer(m))
	m.held = false
	if vrt.Opt.UnlockPoints {
		// a point after the release: what follows an Unlock is no longer covered by the lock and may
		// interleave with threads that take it now
		vrt.Point(vrt.OpUnlock, nil)
	}
}

// ------------------------------------------------------------------ RWMutex

type RWMutex struct {
	real    stdsync.RWMutex
	writer  bool
	readers int
	pending int // announced writers (only with Opt.WriterAnnounce)
	tried   bool
	rsem    byte
	wsem    byte
}

//go:norace
func (m *RWMutex) VrtEnabled(kind vrt.OpKind, t *vrt.Thread) bool {
	switch kind {
	case vrt.OpLock:
		return !m.writer && m.readers == 0
	case vrt.OpRLock:
		return !m.writer && m.pending == 0
	}
	return true
}

//go:norace
func (m *RWMutex) Lock() {
	if !vrt.Managed() {
		m.real.Lock()
		return
	}
	if vrt.Opt.WriterAnnounce {
		vrt.Point(vrt.OpLockAnnounce, nil)
		m.pending++
		vrt.Point(vrt.OpLock, m)
		m.pending--
	} else {
		vrt.Point(vrt.OpLock, m)
	}
	m.writer = true
	vrt.RaceAcquire(unsafe.Pointer(&m.rsem))
	vrt.RaceAcquire(unsafe.Pointer(&m.wsem))
}

//go:norace
func (m *RWMutex) TryLock() bool {
	if !vrt.Managed() {
		return m.real.TryLock()
	}
	m.tried = true
	vrt.Point(vrt.OpTryLock, m)
	if m.writer || m.readers > 0 {
		return false
	}
	m.writer = true
	vrt.RaceAcquire(unsafe.Pointer(&m.rsem))
	vrt.RaceAcquire(unsafe.Pointer(&m.wsem))
	return true
}

//go:norace
func (m *RWMutex) Unlock() {
	if !vrt.Managed() {
		m.real.Unlock()
		return
	}
	vrt.CheckAbort()
	if m.tried {
		vrt.Point(vrt.OpUnlock, nil)
	}
	if !m.writer {
		panic("sync: Unlock of unlocked RWMutex")
	}
	vrt.RaceRelease(unsafe.Pointer(&m.rsem))
	m.writer = false
	if vrt.Opt.UnlockPoints {
		vrt.Point(vrt.OpUnlock, nil)
	}
}

//go:norace
func (m *RWMutex) RLock() {
	if !vrt.Managed() {
		m.real.RLock()
		return
	}
	vrt.Point(vrt.OpRLock, m)
	m.readers++
	vrt.RaceAcquire(unsafe.Pointer(&m.rsem))
}

//go:norace
func (m *RWMutex) TryRLock() bool {
	if !vrt.Managed() {
		return m.real.TryRLock()
	}
	m.tried = true
	vrt.Point(vrt.OpTryLock, m)
	if m.writer || m.pending > 0 {
		return false
	}
	m.readers++
	vrt.RaceAcquire(unsafe.Pointer(&m.rsem))
	return true
}

//go:norace
func (m *RWMutex) RUnlock() {
	if !vrt.Managed() {
		m.real.RUnlock()
		return
	}
	vrt.CheckAbort()
	if m.tried {
		vrt.Point(vrt.OpUnlock, nil)
	}
	if m.readers <= 0 {
		panic("sync: RUnlock of unlocked RWMutex")
	}
	vrt.RaceReleaseMerge(unsafe.Pointer(&m.wsem))
	m.readers--
	if vrt.Opt.UnlockPoints {
		vrt.Point(vrt.OpUnlock, nil)
	}
}

type rlocker RWMutex

func (r *rlocker) Lock()   { (*RWMutex)(r).RLock() }
func (r *rlocker) Unlock() { (*RWMutex)(r).RUnlock() }

func (m *RWMutex) RLocker() Locker { return (*rlocker)(m) }

// ------------------------------------------------------------------ WaitGroup

type WaitGroup struct {
	real    stdsync.WaitGroup
	n       int
	waiters []*vrt.Thread
	sema    byte
}

//go:norace
func (wg *WaitGroup) VrtEnabled(kind vrt.OpKind, t *vrt.Thread) bool {
	if kind == vrt.OpWGWait {
		return t.Woken
	}
	return true
}

// Add, Done and Wait are thin instrumented wrappers so that the race detector's call stack shows the
// caller when the modelled reads/writes of the semaphore word (Add concurrent with Wait) are reported.
//
//go:noinline
func (wg *WaitGroup) Add(delta int) { wg.add(delta) }

//go:norace
func (wg *WaitGroup) add(delta int) {
	if !vrt.Managed() {
		wg.real.Add(delta)
		return
	}
	vrt.CheckAbort()
	if delta > 0 {
		vrt.Point(vrt.OpWGAdd, nil)
	}
	if delta < 0 {
		vrt.RaceReleaseMerge(unsafe.Pointer(wg))
	}
	wg.n += delta
	if delta > 0 && wg.n == delta {
		// the first increment must be synchronised with Wait (as in the standard library)
		vrt.RaceRead(unsafe.Pointer(&wg.sema))
	}
	if wg.n < 0 {
		panic("sync: negative WaitGroup counter")
	}
	if len(wg.waiters) != 0 && delta > 0 && wg.n == delta {
		panic("sync: WaitGroup misuse: Add called concurrently with Wait")
	}
	if wg.n == 0 {
		for _, t := range wg.waiters {
			t.Woken = true
		}
		wg.waiters = nil
	}
}

//go:noinline
func (wg *WaitGroup) Done() { wg.add(-1) }

//go:noinline
func (wg *WaitGroup) Wait() { wg.wait() }

//go:norace
func (wg *WaitGroup) wait() {
	if !vrt.Managed() {
		wg.real.Wait()
		return
	}
	vrt.Point(vrt.OpYield, nil) // the observation of the counter
	if wg.n == 0 {
		vrt.RaceAcquire(unsafe.Pointer(wg))
		return
	}
	if len(wg.waiters) == 0 {
		vrt.RaceWrite(unsafe.Pointer(&wg.sema))
	}
	t := vrt.Cur()
	t.Woken = false
	wg.waiters = append(wg.waiters, t)
	vrt.Point(vrt.OpWGWait, wg)
	vrt.RaceAcquire(unsafe.Pointer(wg))
}

// ------------------------------------------------------------------ Cond

type Cond struct {
	L Locker

	real    *stdsync.Cond
	waiters []*vrt.Thread
}

func NewCond(l Locker) *Cond { return &Cond{L: l, real: stdsync.NewCond(l)} }

//go:norace
func (c *Cond) VrtEnabled(kind vrt.OpKind, t *vrt.Thread) bool {
	if kind == vrt.OpCondWake {
		return t.Woken
	}
	return true
}

//go:norace
func (c *Cond) Wait() {
	if !vrt.Managed() {
		c.realCond().Wait()
		return
	}
	vrt.Point(vrt.OpCondWait, nil) // joining the wait queue is observable by Signal/Broadcast
	t := vrt.Cur()
	t.Woken = false
	c.waiters = append(c.waiters, t) // ticket taken before the unlock, as in the runtime
	c.L.Unlock()
	vrt.Point(vrt.OpCondWake, c)
	c.L.Lock()
}

func (c *Cond) realCond() *stdsync.Cond {
	if c.real == nil {
		c.real = stdsync.NewCond(c.L)
	}
	return c.real
}

//go:norace
func (c *Cond) Signal() {
	if !vrt.Managed() {
		c.realCond().Signal()
		return
	}
	vrt.Point(vrt.OpCondSignal, nil)
	if len(c.waiters) > 0 {
		c.waiters[0].Woken = true
		c.waiters = c.waiters[1:]
	}
}

//go:norace
func (c *Cond) Broadcast() {
	if !vrt.Managed() {
		c.realCond().Broadcast()
		return
	}
	vrt.Point(vrt.OpCondSignal, nil)
	for _, t := range c.waiters {
		t.Woken = true
	}
	c.waiters = nil
}

// ------------------------------------------------------------------ Once

type Once struct {
	real    stdsync.Once
	done    bool
	running bool
	m       Mutex
}

//go:norace
func (o *Once) Do(f func()) {
	if !vrt.Managed() {
		o.real.Do(f)
		return
	}
	o.m.Lock()
	defer o.m.Unlock()
	if !o.done {
		defer func() { o.done = true }()
		f()
	}
}

func OnceFunc(f func()) func() {
	var once Once
	return func() { once.Do(f) }
}

func OnceValue[T any](f func() T) func() T {
	var (
		once Once
		v    T
	)
	return func() T {
		once.Do(func() { v = f() })
		return v
	}
}

func OnceValues[T1, T2 any](f func() (T1, T2)) func() (T1, T2) {
	var (
		once Once
		a    T1
		b    T2
	)
	return func() (T1, T2) {
		once.Do(func() { a, b = f() })
		return a, b
	}
}
