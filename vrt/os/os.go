// Package os is the verification shim for the standard os package as used by fs_db (through
// internal/utils/os and config): real files underneath, but every call that another thread can
// observe is a scheduling point, every persistent mutation is logged / counted (crash points), and
// file writes can be made to fail (ENOSPC, fully or partially).
package os

import (
	"io/fs"
	stdos "os"
	"time"

	"github.com/glebziz/fs_db/verifrt/vrt"
)

type (
	FileMode     = stdos.FileMode
	FileInfo     = stdos.FileInfo
	DirEntry     = stdos.DirEntry
	PathError    = stdos.PathError
	LinkError    = stdos.LinkError
	SyscallError = stdos.SyscallError
	Signal       = stdos.Signal
	Process      = stdos.Process
	ProcAttr     = stdos.ProcAttr
	ProcessState = stdos.ProcessState
)

const (
	O_RDONLY = stdos.O_RDONLY
	O_WRONLY = stdos.O_WRONLY
	O_RDWR   = stdos.O_RDWR
	O_APPEND = stdos.O_APPEND
	O_CREATE = stdos.O_CREATE
	O_EXCL   = stdos.O_EXCL
	O_SYNC   = stdos.O_SYNC
	O_TRUNC  = stdos.O_TRUNC

	ModeDir        = stdos.ModeDir
	ModeAppend     = stdos.ModeAppend
	ModeExclusive  = stdos.ModeExclusive
	ModeTemporary  = stdos.ModeTemporary
	ModeSymlink    = stdos.ModeSymlink
	ModeDevice     = stdos.ModeDevice
	ModeNamedPipe  = stdos.ModeNamedPipe
	ModeSocket     = stdos.ModeSocket
	ModeSetuid     = stdos.ModeSetuid
	ModeSetgid     = stdos.ModeSetgid
	ModeCharDevice = stdos.ModeCharDevice
	ModeSticky     = stdos.ModeSticky
	ModeIrregular  = stdos.ModeIrregular
	ModeType       = stdos.ModeType
	ModePerm       = stdos.ModePerm

	PathSeparator     = stdos.PathSeparator
	PathListSeparator = stdos.PathListSeparator
	DevNull           = stdos.DevNull

	SEEK_SET = 0
	SEEK_CUR = 1
	SEEK_END = 2
)

var (
	ErrInvalid          = stdos.ErrInvalid
	ErrPermission       = stdos.ErrPermission
	ErrExist            = stdos.ErrExist
	ErrNotExist         = stdos.ErrNotExist
	ErrClosed           = stdos.ErrClosed
	ErrNoDeadline       = stdos.ErrNoDeadline
	ErrDeadlineExceeded = stdos.ErrDeadlineExceeded
	ErrProcessDone      = stdos.ErrProcessDone

	Stdin  = stdos.Stdin
	Stdout = stdos.Stdout
	Stderr = stdos.Stderr
	Args   = stdos.Args

	Interrupt = stdos.Interrupt
	Kill      = stdos.Kill
)

func Getenv(k string) string                        { return stdos.Getenv(k) }
func LookupEnv(k string) (string, bool)             { return stdos.LookupEnv(k) }
func Setenv(k, v string) error                      { return stdos.Setenv(k, v) }
func Unsetenv(k string) error                       { return stdos.Unsetenv(k) }
func Clearenv()                                     { stdos.Clearenv() }
func Environ() []string                             { return stdos.Environ() }
func ExpandEnv(s string) string                     { return stdos.ExpandEnv(s) }
func Expand(s string, m func(string) string) string { return stdos.Expand(s, m) }
func Exit(code int)                                 { stdos.Exit(code) }
func Getpid() int                                   { return stdos.Getpid() }
func Getppid() int                                  { return stdos.Getppid() }
func Getuid() int                                   { return stdos.Getuid() }
func Getgid() int                                   { return stdos.Getgid() }
func Getwd() (string, error)                        { return stdos.Getwd() }
func Chdir(d string) error                          { return stdos.Chdir(d) }
func TempDir() string                               { return stdos.TempDir() }
func UserHomeDir() (string, error)                  { return stdos.UserHomeDir() }
func UserCacheDir() (string, error)                 { return stdos.UserCacheDir() }
func UserConfigDir() (string, error)                { return stdos.UserConfigDir() }
func Hostname() (string, error)                     { return stdos.Hostname() }
func Executable() (string, error)                   { return stdos.Executable() }
func IsNotExist(err error) bool                     { return stdos.IsNotExist(err) }
func IsExist(err error) bool                        { return stdos.IsExist(err) }
func IsPermission(err error) bool                   { return stdos.IsPermission(err) }
func IsTimeout(err error) bool                      { return stdos.IsTimeout(err) }
func IsPathSeparator(c uint8) bool                  { return stdos.IsPathSeparator(c) }
func SameFile(a, b FileInfo) bool                   { return stdos.SameFile(a, b) }
func DirFS(dir string) fs.FS                        { return stdos.DirFS(dir) }
func NewSyscallError(s string, err error) error     { return stdos.NewSyscallError(s, err) }
func Getpagesize() int                              { return stdos.Getpagesize() }
func FindProcess(pid int) (*Process, error)         { return stdos.FindProcess(pid) }

func fsPoint() { vrt.Point(vrt.OpFS, nil) }

func Stat(name string) (FileInfo, error)  { fsPoint(); return stdos.Stat(name) }
func Lstat(name string) (FileInfo, error) { fsPoint(); return stdos.Lstat(name) }
func ReadDir(name string) ([]DirEntry, error) {
	fsPoint()
	return stdos.ReadDir(name)
}
func ReadFile(name string) ([]byte, error) { fsPoint(); return stdos.ReadFile(name) }
func Readlink(name string) (string, error) { fsPoint(); return stdos.Readlink(name) }

func exists(name string) bool {
	_, err := stdos.Lstat(name)
	return err == nil
}

func Mkdir(name string, perm FileMode) error {
	fsPoint()
	vrt.CountMutation()
	err := stdos.Mkdir(name, perm)
	if err == nil {
		vrt.Record(vrt.Mutation{Kind: vrt.MutMkdir, Path: name})
	}
	return err
}

func MkdirAll(path string, perm FileMode) error {
	fsPoint()
	if exists(path) {
		return stdos.MkdirAll(path, perm)
	}
	vrt.CountMutation()
	err := stdos.MkdirAll(path, perm)
	if err == nil {
		vrt.Record(vrt.Mutation{Kind: vrt.MutMkdir, Path: path})
	}
	return err
}

func MkdirTemp(dir, pattern string) (string, error) {
	fsPoint()
	vrt.CountMutation()
	p, err := stdos.MkdirTemp(dir, pattern)
	if err == nil {
		vrt.Record(vrt.Mutation{Kind: vrt.MutMkdir, Path: p})
	}
	return p, err
}

func Remove(name string) error {
	fsPoint()
	vrt.CountMutation()
	err := stdos.Remove(name)
	if err == nil {
		vrt.Record(vrt.Mutation{Kind: vrt.MutRemove, Path: name})
	}
	return err
}

func RemoveAll(path string) error {
	fsPoint()
	vrt.CountMutation()
	// logged as the removal of every regular file and directory below path, deepest first
	var files []string
	_ = walk(path, &files)
	err := stdos.RemoveAll(path)
	if err == nil {
		for i := len(files) - 1; i >= 0; i-- {
			vrt.Record(vrt.Mutation{Kind: vrt.MutRemove, Path: files[i]})
		}
	}
	return err
}

func walk(p string, out *[]string) error {
	fi, err := stdos.Lstat(p)
	if err != nil {
		return err
	}
	*out = append(*out, p)
	if fi.IsDir() {
		ents, _ := stdos.ReadDir(p)
		for _, e := range ents {
			_ = walk(p+string(PathSeparator)+e.Name(), out)
		}
	}
	return nil
}

func Rename(oldpath, newpath string) error {
	fsPoint()
	vrt.CountMutation()
	err := stdos.Rename(oldpath, newpath)
	if err == nil {
		vrt.Record(vrt.Mutation{Kind: vrt.MutRename, Path: oldpath, To: newpath})
	}
	return err
}

func Truncate(name string, size int64) error    { fsPoint(); return stdos.Truncate(name, size) }
func Chmod(name string, mode FileMode) error    { fsPoint(); return stdos.Chmod(name, mode) }
func Chtimes(name string, a, m time.Time) error { return stdos.Chtimes(name, a, m) }
func Symlink(o, n string) error                 { fsPoint(); return stdos.Symlink(o, n) }
func Link(o, n string) error                    { fsPoint(); return stdos.Link(o, n) }

func WriteFile(name string, data []byte, perm FileMode) error {
	f, err := OpenFile(name, O_WRONLY|O_CREATE|O_TRUNC, perm)
	if err != nil {
		return err
	}
	_, err = f.Write(data)
	if err1 := f.Close(); err1 != nil && err == nil {
		err = err1
	}
	return err
}

// File mirrors os.File.
type File struct {
	f    *stdos.File
	path string
	pos  int64
	wr   bool
}

func NewFile(fd uintptr, name string) *File { return &File{f: stdos.NewFile(fd, name), path: name} }

func Create(name string) (*File, error) {
	return OpenFile(name, O_RDWR|O_CREATE|O_TRUNC, 0o666)
}

func Open(name string) (*File, error) { return OpenFile(name, O_RDONLY, 0) }

func CreateTemp(dir, pattern string) (*File, error) {
	fsPoint()
	vrt.CountMutation()
	f, err := stdos.CreateTemp(dir, pattern)
	if err != nil {
		return nil, err
	}
	vrt.Record(vrt.Mutation{Kind: vrt.MutCreate, Path: f.Name()})
	return &File{f: f, path: f.Name(), wr: true}, nil
}

func OpenFile(name string, flag int, perm FileMode) (*File, error) {
	fsPoint()
	mut := flag&(O_CREATE|O_TRUNC) != 0
	if mut {
		vrt.CountMutation()
	}
	f, err := stdos.OpenFile(name, flag, perm)
	if err != nil {
		// keep the nil-ness contract of the real package: (*File)(nil) on error
		return nil, err
	}
	if mut {
		vrt.Record(vrt.Mutation{Kind: vrt.MutCreate, Path: name})
	}
	return &File{f: f, path: name, wr: flag&(O_WRONLY|O_RDWR) != 0}, nil
}

func (f *File) Name() string { return f.f.Name() }

func (f *File) Read(b []byte) (int, error) {
	vrt.CheckAbort()
	n, err := f.f.Read(b)
	f.pos += int64(n)
	return n, err
}

func (f *File) ReadAt(b []byte, off int64) (int, error) { return f.f.ReadAt(b, off) }

func (f *File) Write(b []byte) (n int, err error) {
	fsPoint()
	if wf := vrt.WriteFault; wf != nil {
		if k, ferr, fire := wf(f.path, b); fire {
			if k > 0 {
				vrt.CountMutation()
				k, _ = f.f.Write(b[:k])
				vrt.Record(vrt.Mutation{Kind: vrt.MutWrite, Path: f.path, Off: f.pos, Data: b[:k]})
				f.pos += int64(k)
			}
			return k, &PathError{Op: "write", Path: f.path, Err: ferr}
		}
	}
	vrt.CountMutation()
	n, err = f.f.Write(b)
	if n > 0 {
		vrt.Record(vrt.Mutation{Kind: vrt.MutWrite, Path: f.path, Off: f.pos, Data: b[:n]})
		f.pos += int64(n)
	}
	return n, err
}

func (f *File) WriteString(s string) (int, error) { return f.Write([]byte(s)) }

func (f *File) WriteAt(b []byte, off int64) (n int, err error) {
	fsPoint()
	vrt.CountMutation()
	n, err = f.f.WriteAt(b, off)
	if n > 0 {
		vrt.Record(vrt.Mutation{Kind: vrt.MutWrite, Path: f.path, Off: off, Data: b[:n]})
	}
	return n, err
}

func (f *File) Seek(offset int64, whence int) (int64, error) {
	p, err := f.f.Seek(offset, whence)
	if err == nil {
		f.pos = p
	}
	return p, err
}

func (f *File) Close() error {
	if f == nil {
		return ErrInvalid
	}
	return f.f.Close()
}
func (f *File) Sync() error                          { return f.f.Sync() }
func (f *File) Stat() (FileInfo, error)              { return f.f.Stat() }
func (f *File) Truncate(size int64) error            { return f.f.Truncate(size) }
func (f *File) Chmod(mode FileMode) error            { return f.f.Chmod(mode) }
func (f *File) Fd() uintptr                          { return f.f.Fd() }
func (f *File) ReadDir(n int) ([]DirEntry, error)    { return f.f.ReadDir(n) }
func (f *File) Readdir(n int) ([]FileInfo, error)    { return f.f.Readdir(n) }
func (f *File) Readdirnames(n int) ([]string, error) { return f.f.Readdirnames(n) }
func (f *File) SetDeadline(t time.Time) error        { return f.f.SetDeadline(t) }
