//go:build race

package vrt

import (
	"fmt"
	"syscall"
	"runtime"
	"unsafe"
)

const RaceEnabled = true

func raceDisable() { runtime.RaceDisable() }
func raceEnable()  { runtime.RaceEnable() }

func RaceAcquire(p unsafe.Pointer)      { runtime.RaceAcquire(p) }
func RaceRelease(p unsafe.Pointer)      { runtime.RaceRelease(p) }
func RaceReleaseMerge(p unsafe.Pointer) { runtime.RaceReleaseMerge(p) }
func RaceRead(p unsafe.Pointer)         { runtime.RaceRead(p) }
func RaceWrite(p unsafe.Pointer)        { runtime.RaceWrite(p) }
func RaceErrors() int                   { return runtime.RaceErrors() }

// The teardown of an execution unwinds parked threads through code whose locks are no longer
// honoured; reports printed inside such a window are not attributed to the program.
func raceWindowBegin() {
	fmt.Fprintf(os.Stderr, "\n@@VRT-TEARDOWN-BEGIN races=%d\n", runtime.RaceErrors())
}
func raceWindowEnd() { fmt.Fprintf(os.Stderr, "\n@@VRT-TEARDOWN-END races=%d\n", runtime.RaceErrors()) }
