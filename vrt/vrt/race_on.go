//go:build race

package vrt

import (
	"fmt"
	"runtime"
	"syscall"
	"unsafe"
)

const RaceEnabled = true

func raceDisable() { runtime.RaceDisable() }
func raceEnable()  { runtime.RaceEnable() }

func RaceAcquire(p unsafe.Pointer)      { runtime.RaceAcquire(p) }
func RaceRelease(p unsafe.Pointer)      { runtime.RaceRelease(p) }
func RaceReleaseMerge(p unsafe.Pointer) { runtime.RaceReleaseMerge(p) }
func RaceRead(p unsafe.Pointer)         { runtime.RaceRead(p) }
func RaceWrite(p unsafe.Pointer)        { runtime.RaceWrite(p) }
func RaceErrors() int                   { return runtime.RaceErrors() }

// The teardown of an execution unwinds parked threads through code whose locks are no longer
// honoured; reports printed inside such a window are not attributed to the program. The markers are
// written to file descriptor 2 itself: that is where the runtime prints its reports.
func raceWindowBegin() {
	syscall.Write(2, []byte(fmt.Sprintf("\n@@VRT-TEARDOWN-BEGIN races=%d\n", runtime.RaceErrors())))
}

func raceWindowEnd() {
	syscall.Write(2, []byte(fmt.Sprintf("\n@@VRT-TEARDOWN-END races=%d\n", runtime.RaceErrors())))
}
