package vrt

// Cell is harness-side shared state that is deliberately invisible to the race detector (the harness
// observes the program; it must not add races of its own). Only meaningful under the scheduler, where
// one thread runs at a time.
type Cell struct{ v int64 }

//go:norace
func (c *Cell) Add(d int64) int64 { c.v += d; return c.v }

//go:norace
func (c *Cell) Get() int64 { return c.v }

//go:norace
func (c *Cell) Set(v int64) { c.v = v }

// Log is an append-only event list with the same exemption.
type Log struct{ ev []string }

//go:norace
func (l *Log) Add(s string) { l.ev = append(l.ev, s) }

//go:norace
func (l *Log) Events() []string { return append([]string(nil), l.ev...) }

//go:norace
func (l *Log) Len() int { return len(l.ev) }
