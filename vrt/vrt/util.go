package vrt

// Cell is harness-side shared state that is deliberately invisible to the race detector (the harness
// observes the program; it must not add races of its own). Only meaningful under the scheduler, where
// one thread runs at a time.
type Cell struct{ v int64 }

//go:norace
//go:noinline
func (c *Cell) Add(d int64) int64 { c.v += d; return c.v }

//go:norace
//go:noinline
func (c *Cell) Get() int64 { return c.v }

//go:norace
//go:noinline
func (c *Cell) Set(v int64) { c.v = v }

// Log is an append-only event list with the same exemption.
type Log struct{ ev []string }

//go:norace
//go:noinline
func (l *Log) Add(s string) { l.ev = append(l.ev, s) }

//go:norace
//go:noinline
func (l *Log) Events() []string { return append([]string(nil), l.ev...) }

//go:norace
//go:noinline
func (l *Log) Len() int { return len(l.ev) }

// DetRand is a deterministic byte source (for uuid.SetRand); safe to share between managed threads.
type DetRand struct{ N uint64 }

//go:norace
//go:noinline
func (d *DetRand) Read(p []byte) (int, error) {
	for i := 0; i < len(p); i += 8 {
		d.N++
		x := d.N*0x9E3779B97F4A7C15 + 0x1234567
		for j := 0; j < 8 && i+j < len(p); j++ {
			p[i+j] = byte(x >> (56 - 8*uint(j)))
		}
	}
	return len(p), nil
}
