package vrt

import (
	"time"
)

// VTimer is a timer on the virtual clock.
type VTimer struct {
	Deadline int64
	Short    bool
	Fired    bool
	ChPtr    uintptr // channel the timer sends on (0: callback timer)
	Fire     func()
}

// Epoch of the virtual clock.
var Epoch = time.Date(2030, 1, 1, 0, 0, 0, 0, time.UTC)

//go:norace
func Now() time.Time {
	s := S
	if s == nil {
		return time.Now()
	}
	return Epoch.Add(time.Duration(s.now))
}

// AddTimer registers a timer d from now. Only in managed mode.
//
//go:norace
func AddTimer(d time.Duration, chPtr uintptr, fire func()) *VTimer {
	s := S
	if d < 0 {
		d = 0
	}
	t := &VTimer{Deadline: s.now + int64(d), Short: d < Opt.LongTimer, ChPtr: chPtr, Fire: fire}
	s.timers = append(s.timers, t)
	return t
}

// StopTimer cancels a timer; reports whether it had not fired yet.
//
//go:norace
func StopTimer(t *VTimer) bool {
	was := !t.Fired
	t.Fired = true
	return was
}

//go:norace
func (s *Sched) fire(t *VTimer) {
	t.Fired = true
	if t.Deadline > s.now {
		s.now = t.Deadline
	}
	t.Fire()
	s.compactTimers()
}

//go:norace
func (s *Sched) compactTimers() {
	if len(s.timers) < 32 {
		return
	}
	k := 0
	for _, t := range s.timers {
		if !t.Fired {
			s.timers[k] = t
			k++
		}
	}
	s.timers = s.timers[:k]
}

//go:norace
func (s *Sched) fireEarliestShort() bool {
	var best *VTimer
	for _, t := range s.timers {
		if !t.Fired && t.Short && (best == nil || t.Deadline < best.Deadline) {
			best = t
		}
	}
	if best == nil {
		return false
	}
	s.fire(best)
	return true
}

// earlyTimers returns the pending short timers some parked thread is waiting for.
//
//go:norace
func (s *Sched) earlyTimers() []*VTimer {
	var out []*VTimer
	for _, t := range s.timers {
		if t.Fired || !t.Short {
			continue
		}
		if t.ChPtr == 0 {
			out = append(out, t)
			continue
		}
		for _, th := range s.threads {
			if th.done || th.kind != OpSelect {
				continue
			}
			hit := false
			for _, c := range th.cases {
				if c.recv() && c.ptr() == t.ChPtr {
					hit = true
					break
				}
			}
			if hit {
				out = append(out, t)
				break
			}
		}
	}
	return out
}

// Advance moves the virtual clock forward by d, firing every timer that becomes due (in deadline
// order). It is a visible operation of the calling (harness) thread.
//
//go:norace
func Advance(d time.Duration) {
	s := S
	if s == nil {
		return
	}
	s.point(OpHarness, nil, nil)
	target := s.now + int64(d)
	for {
		var best *VTimer
		for _, t := range s.timers {
			if !t.Fired && t.Deadline <= target && (best == nil || t.Deadline < best.Deadline) {
				best = t
			}
		}
		if best == nil {
			break
		}
		s.fire(best)
	}
	if target > s.now {
		s.now = target
	}
}

// PendingTimers counts unfired timers (short, long).
//
//go:norace
func PendingTimers() (short, long int) {
	s := S
	if s == nil {
		return
	}
	for _, t := range s.timers {
		if !t.Fired {
			if t.Short {
				short++
			} else {
				long++
			}
		}
	}
	return
}
