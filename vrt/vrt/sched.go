// Package vrt is the controlled runtime of the verification framework: a cooperative scheduler that
// runs exactly one managed goroutine at a time, turns every visible operation into a scheduling or
// choice point, and a stateless depth-first explorer over the resulting choice sequences.
//
// With no execution attached (S == nil) every shim built on this package passes through to the real
// primitive, so the same binary also serves free-running uses.
package vrt

import (
	"fmt"
	"os"
	"runtime"
	"sort"
	"strings"
	stdsync "sync"
	"time"
)

// OpKind names the visible operation a thread is about to perform.
type OpKind uint8

const (
	OpStart OpKind = iota
	OpLock
	OpRLock
	OpTryLock
	OpUnlock
	OpLockAnnounce
	OpAtomic
	OpCondWait
	OpCondWake
	OpCondSignal
	OpWGAdd
	OpWGWait
	OpOnce
	OpSelect
	OpClose
	OpKV
	OpFS
	OpHarness
	OpQuiesce
	OpJoin
	OpYield
)

var opNames = [...]string{"start", "lock", "rlock", "trylock", "unlock", "lock-announce", "atomic", "cond-wait",
	"cond-wake", "cond-signal", "wg-add", "wg-wait", "once", "select", "close", "kv", "fs", "harness", "quiesce", "join", "yield"}

func (k OpKind) String() string {
	if int(k) < len(opNames) {
		return opNames[k]
	}
	return fmt.Sprintf("op%d", int(k))
}

// Waitable is implemented by shim objects; the scheduler asks it whether the pending operation of a
// thread can proceed. Implementations must be //go:norace (they read state written by other threads).
type Waitable interface {
	VrtEnabled(kind OpKind, t *Thread) bool
}

// Thread is one managed goroutine.
type Thread struct {
	ID   int
	Name string

	wake  chan int // 0 run, 1 abort
	kind  OpKind
	obj   Waitable
	cases []Case
	done  bool
	site  string // innermost non-runtime function of the pending op (trace mode only)

	selDone    int // >= 0: an unbuffered rendez-vous completed this arm while the thread was parked
	hasDefault bool

	// Woken is set by the Cond and WaitGroup shims when a parked waiter has been released.
	Woken bool
}

type abortT struct{}

type closedChan struct {
	p   uintptr
	ref any
}

//go:norace
func (s *Sched) isClosed(p uintptr) bool {
	for i := range s.closed {
		if s.closed[i].p == p {
			return true
		}
	}
	return false
}

// Sched is the state of one execution.
type Sched struct {
	threads   []*Thread
	cur       *Thread
	exp       *Explorer
	aborting  bool
	verdict   string
	finished  chan struct{}
	steps     int
	branching bool

	now    int64 // virtual nanoseconds since vEpoch
	timers []*VTimer

	afterFuncs []*afterFunc
	noPoint    int          // > 0: inside a shim's own bookkeeping, where plain points (polls) do not yield
	closed     []closedChan // closed channels by address; ref keeps the channel alive so the address is not reused (no map: the runtime's map code is race-instrumented)
	objIDs     map[any]int

	// per-execution scratch for harnesses
	Values map[string]any
}

// S is the scheduler of the execution in progress; nil means pass-through mode.
var S *Sched

var live stdsync.WaitGroup

// Options that the harness may set before an exploration.
type Options struct {
	TimerDeviations bool          // short timers may fire early at the cost of one deviation
	LongTimer       time.Duration // timers of at least this duration fire only through Advance
	WriterAnnounce  bool          // model RWMutex writer preference (pending writer blocks new readers)
	StepHorizon     int           // abort an execution after this many scheduling steps
	SelectChoice    bool          // choosing a later ready select arm is offered as a deviation
	FreeTimers      bool          // a short timer firing early costs no deviation (programs about time-outs)
	UnlockPoints    bool          // every Unlock / RUnlock is followed by a scheduling point (release points)
	RoundRobin      bool          // the default choice at every point is the *next* enabled thread (maximal interleaving) instead of the running one
}

var Opt = Options{LongTimer: time.Second, StepHorizon: 200000, TimerDeviations: true, SelectChoice: true}

// Managed reports whether the caller runs under the scheduler.
func Managed() bool { return S != nil }

// Aborting reports whether the current execution is being torn down.
func Aborting() bool { s := S; return s != nil && s.aborting }

// CheckAbort unwinds the caller if its execution is being torn down (used by release-type shim
// operations, which are not scheduling points).
//
//go:norace
func CheckAbort() {
	if s := S; s != nil && s.aborting {
		panic(abortT{})
	}
}

// Cur returns the running thread (nil in pass-through mode).
func Cur() *Thread {
	if S == nil {
		return nil
	}
	return S.cur
}

//go:norace
func (s *Sched) enabled(t *Thread) bool {
	if t.done {
		return false
	}
	switch t.kind {
	case OpQuiesce:
		return false
	case OpSelect:
		return selectEnabled(s, t)
	}
	if t.obj == nil {
		return true
	}
	return t.obj.VrtEnabled(t.kind, t)
}

// canonical returns the enabled thread ids: the running thread first if still enabled, then ascending ids.
//
//go:norace
func (s *Sched) canonical(me *Thread) (ids []int, curEn bool) {
	for _, t := range s.threads {
		if t == me {
			if s.enabled(t) {
				curEn = true
			}
			continue
		}
		if s.enabled(t) {
			ids = append(ids, t.ID)
		}
	}
	if curEn {
		if Opt.RoundRobin && len(ids) > 0 {
			// the threads after the running one first (cyclically), the running one last: the default
			// schedule then alternates between the threads at every point instead of running each to its
			// next block — one more schedule, as legitimate as the run-to-block one, in which background
			// jobs overlap
			k := 0
			for k < len(ids) && ids[k] < me.ID {
				k++
			}
			rot := append(append([]int{}, ids[k:]...), ids[:k]...)
			return append(rot, me.ID), curEn
		}
		ids = append([]int{me.ID}, ids...)
	}
	return ids, curEn
}

// Point is called by shims before a visible operation. obj may be nil (always enabled).
//
//go:norace
func Point(kind OpKind, obj Waitable) {
	s := S
	if s == nil || s.noPoint > 0 {
		return
	}
	s.point(kind, obj, nil)
}

//go:norace
func (s *Sched) point(kind OpKind, obj Waitable, cases []Case) {
	if s.aborting {
		panic(abortT{})
	}
	t := s.cur
	t.kind, t.obj, t.cases = kind, obj, cases
	if s.exp.trace {
		t.site = callerSite()
	}
	s.reschedule(t)
	t.obj, t.cases = nil, nil
}

//go:norace
func (s *Sched) reschedule(me *Thread) {
	for {
		ids, curEn := s.canonical(me)
		if len(ids) == 0 {
			if s.fireEarliestShort() {
				continue
			}
			if q := s.quiescer(); q != nil {
				if q == me {
					return
				}
				s.switchTo(q, me)
				return
			}
			s.fail("deadlock: " + s.describeThreads())
			panic(abortT{})
		}
		s.steps++
		globalSteps++
		if s.steps > Opt.StepHorizon {
			s.fail("step-horizon exceeded (livelock?): " + s.describeThreads())
			panic(abortT{})
		}
		nThreads := len(ids)
		var early []*VTimer
		if s.branching && Opt.TimerDeviations {
			early = s.earlyTimers()
		}
		k := s.exp.choose(s, choiceThread, ids, curEn, len(early))
		if k >= nThreads {
			s.fire(early[k-nThreads])
			continue
		}
		next := s.threads[ids[k]]
		if next == me {
			return
		}
		s.switchTo(next, me)
		return
	}
}

//go:norace
func (s *Sched) quiescer() *Thread {
	for _, t := range s.threads {
		if !t.done && t.kind == OpQuiesce {
			return t
		}
	}
	return nil
}

//go:norace
func (s *Sched) switchTo(next, me *Thread) {
	s.cur = next
	raceDisable()
	next.wake <- 0
	c := <-me.wake
	raceEnable()
	if c == 1 {
		panic(abortT{})
	}
}

// finishThread is called when a managed thread's function returned.
//
//go:norace
func (s *Sched) finishThread(me *Thread) {
	me.done = true
	if me.ID == 0 {
		// the harness main returned: the execution is over.
		s.endExecution()
		return
	}
	for {
		ids, _ := s.canonical(nil)
		if len(ids) == 0 {
			if s.fireEarliestShort() {
				continue
			}
			if q := s.quiescer(); q != nil {
				s.cur = q
				raceDisable()
				q.wake <- 0
				raceEnable()
				return
			}
			s.fail("deadlock: " + s.describeThreads())
			return
		}
		var early []*VTimer
		if s.branching && Opt.TimerDeviations {
			early = s.earlyTimers()
		}
		k := s.exp.choose(s, choiceThread, ids, false, len(early))
		if k >= len(ids) {
			s.fire(early[k-len(ids)])
			continue
		}
		next := s.threads[ids[k]]
		s.cur = next
		raceDisable()
		next.wake <- 0
		raceEnable()
		return
	}
}

// fail records a scheduler-level verdict and tears the execution down. Called from the running thread.
//
//go:norace
func (s *Sched) fail(v string) {
	if s.verdict == "" {
		s.verdict = v
	}
	s.endExecution()
}

// endExecution unwinds every thread that is still parked, one at a time, then signals the explorer.
//
//go:norace
func (s *Sched) endExecution() {
	if s.aborting {
		return
	}
	s.aborting = true
	me := s.cur
	for _, t := range s.threads {
		if t.done || t == me {
			continue
		}
		if !s.exp.inWindow {
			s.exp.inWindow = true
			raceWindowBegin()
		}
		t.done = true
		s.exp.leaked++
		t.wake <- 1
		<-s.exp.unwound
	}
	if !me.done && !s.exp.inWindow {
		// the initiating thread is about to unwind through its own frames
		s.exp.inWindow = true
		raceWindowBegin()
	}
	close(s.finished)
}

//go:norace
func (s *Sched) describeThreads() string {
	var b []string
	for _, t := range s.threads {
		if t.done {
			continue
		}
		d := fmt.Sprintf("T%d", t.ID)
		if t.Name != "" {
			d += "(" + t.Name + ")"
		}
		d += "@" + t.kind.String()
		if t.site != "" {
			d += ":" + t.site
		}
		b = append(b, d)
	}
	return strings.Join(b, " ")
}

// Go starts f as a managed thread (or a plain goroutine in pass-through mode).
func Go(f func()) { GoNamed("", f) }

//go:norace
func GoNamed(name string, f func()) {
	s := S
	if s == nil {
		go f()
		return
	}
	if s.aborting {
		panic(abortT{})
	}
	t := &Thread{ID: len(s.threads), Name: name, wake: make(chan int, 1), kind: OpStart, selDone: -1}
	s.threads = append(s.threads, t)
	live.Add(1)
	go threadMain(s, t, f)
}

func threadMain(s *Sched, t *Thread, f func()) {
	defer live.Done()
	raceDisable()
	c := <-t.wake
	raceEnable()
	if c == 1 {
		s.exp.unwound <- struct{}{}
		return
	}
	defer threadExit(s, t)
	f()
}

//go:norace
func threadExit(s *Sched, t *Thread) {
	r := recover()
	if s.aborting {
		if r != nil {
			if _, ok := r.(abortT); !ok {
				s.exp.TeardownPanics++
			}
		}
		if t.done && s.cur != t {
			// woken only to unwind
			s.exp.unwound <- struct{}{}
			return
		}
		if s.cur == t && !t.done {
			// this thread initiated the teardown (fail → panic(abortT)); nothing more to do
			t.done = true
		}
		return
	}
	if r != nil {
		if _, ok := r.(abortT); !ok {
			buf := make([]byte, 4096)
			buf = buf[:runtime.Stack(buf, false)]
			s.cur = t
			s.fail(fmt.Sprintf("panic in T%d(%s): %v\n%s", t.ID, t.Name, r, trimStack(string(buf))))
			t.done = true
			return
		}
	}
	s.finishThread(t)
}

func trimStack(st string) string {
	lines := strings.Split(st, "\n")
	var out []string
	for _, l := range lines {
		if strings.Contains(l, "glebziz/fs_db") && !strings.Contains(l, "verifrt/vrt") {
			out = append(out, strings.TrimSpace(l))
			if len(out) >= 8 {
				break
			}
		}
	}
	return strings.Join(out, " | ")
}

// Quiesce blocks the calling thread until no other thread is enabled and no short timer is pending.
//
//go:norace
func Quiesce() {
	s := S
	if s == nil {
		return
	}
	s.point(OpQuiesce, nil, nil)
	s.cur.kind = OpHarness
}

// Yield is a plain scheduling point.
func Yield() { Point(OpYield, nil) }

// SetBranching switches alternatives on or off (off: the default choice is forced, nothing is recorded
// as a branch). Used by harnesses around sequential set-up.
//
//go:norace
func SetBranching(on bool) {
	if S != nil {
		S.branching = on
	}
}

// NumLive returns the number of managed threads other than the caller that have not finished.
//
//go:norace
func NumLive() int {
	s := S
	if s == nil {
		return 0
	}
	n := 0
	for _, t := range s.threads {
		if !t.done && t != s.cur {
			n++
		}
	}
	return n
}

// LiveThreads describes the unfinished threads other than the caller.
//
//go:norace
func LiveThreads() string {
	s := S
	if s == nil {
		return ""
	}
	cur := s.cur
	var b []string
	for _, t := range s.threads {
		if !t.done && t != cur {
			b = append(b, fmt.Sprintf("T%d(%s)@%s", t.ID, t.Name, t.kind))
		}
	}
	return strings.Join(b, " ")
}

// Choose is an explicit data choice of the environment (shuffle order, ready select arm, injected
// fault). Default answer 0; every other answer costs one deviation unless free is set.
//
//go:norace
func Choose(n int, label string, free bool) int {
	s := S
	if s == nil || n <= 1 {
		return 0
	}
	if s.aborting {
		panic(abortT{})
	}
	if !s.branching && !free {
		return 0
	}
	kind := choiceData
	if free {
		kind = choiceFree
	}
	s.cur.site = label
	ids := make([]int, n)
	for i := range ids {
		ids[i] = i
	}
	return s.exp.choose(s, kind, ids, true, 0)
}

// ObjID gives objects small stable numbers in first-touch order (labels only).
//
//go:norace
func (s *Sched) ObjID(o any) int {
	if id, ok := s.objIDs[o]; ok {
		return id
	}
	id := len(s.objIDs) + 1
	s.objIDs[o] = id
	return id
}

// callerSite returns "inner<outer": the innermost fs_db (or dependency) function of the pending
// operation and the fs_db function that called it.
func callerSite() string {
	pcs := make([]uintptr, 32)
	n := runtime.Callers(3, pcs)
	frames := runtime.CallersFrames(pcs[:n])
	var got []string
	for {
		fr, more := frames.Next()
		fn := fr.Function
		if fn != "" && !strings.Contains(fn, "/verifrt/") && !strings.HasPrefix(fn, "runtime.") {
			fn = strings.TrimPrefix(fn, "github.com/glebziz/fs_db/")
			if i := strings.Index(fn, "[go.shape"); i >= 0 {
				if j := strings.LastIndex(fn, "]"); j > i {
					fn = fn[:i] + "[...]" + fn[j+1:]
				}
			}
			got = append(got, fn)
			if len(got) == 2 {
				break
			}
		}
		if !more {
			break
		}
	}
	return strings.Join(got, "<")
}

// ---------------------------------------------------------------------------------------------
// watchdog: a managed execution that makes no scheduling step for a long time is blocked on
// something the scheduler does not manage — an infrastructure error, never a verdict.

var lastStep int64

func init() {
	if os.Getenv("VRT_NO_WATCHDOG") != "" {
		return
	}
	go func() {
		var prev int64 = -1
		idle := 0
		for {
			time.Sleep(5 * time.Second)
			cur := stepCounter()
			if S != nil && cur == prev {
				idle++
				if idle >= 24 {
					buf := make([]byte, 1<<20)
					buf = buf[:runtime.Stack(buf, true)]
					fmt.Fprintf(os.Stderr, "vrt: watchdog: no scheduling step for 120 s (unmanaged blocking?)\n%s\n", buf)
					os.Exit(3)
				}
			} else {
				idle = 0
			}
			prev = cur
		}
	}()
}

var globalSteps int64

//go:norace
func stepCounter() int64 { return globalSteps }

func sortInts(a []int) { sort.Ints(a) }
