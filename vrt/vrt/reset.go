package vrt

import (
	"cmp"
	"iter"
	"slices"
	"sort"
)

type resetEntry struct {
	pkg string
	f   func()
}

var resets []resetEntry

// RegisterReset is called from generated init functions of instrumented packages.
func RegisterReset(pkg string, f func()) { resets = append(resets, resetEntry{pkg, f}) }

// ResetGlobals re-initialises the package-level variables of all instrumented packages (emulated
// process restart).
func ResetGlobals() {
	sort.SliceStable(resets, func(i, j int) bool { return resets[i].pkg < resets[j].pkg })
	for _, r := range resets {
		r.f()
	}
}

// MapOrderChoice makes the iteration order of small maps an explorer choice (default: sorted order;
// alternative: reverse sorted order, one deviation).
var MapOrderChoice bool

// MapOrderDesc makes instrumented map ranges run in descending key order (the sequential engine runs
// multi-key plans in both orders: with two keys that is every order).
var MapOrderDesc bool

// RangeMap replaces ranging over a map with an ordered key type in instrumented code: under the
// scheduler the order is deterministic (sorted keys), so executions are replayable.
func RangeMap[M ~map[K]V, K cmp.Ordered, V any](m M) iter.Seq2[K, V] {
	if S == nil {
		return func(yield func(K, V) bool) {
			for k, v := range m {
				if !yield(k, v) {
					return
				}
			}
		}
	}
	return func(yield func(K, V) bool) {
		keys := make([]K, 0, len(m))
		for k := range m {
			keys = append(keys, k)
		}
		slices.Sort(keys)
		if MapOrderDesc {
			slices.Reverse(keys)
		}
		if MapOrderChoice && len(keys) > 1 {
			if Choose(2, "map-order", false) == 1 {
				slices.Reverse(keys)
			}
		}
		for _, k := range keys {
			v, ok := m[k]
			if !ok {
				continue // deleted during the iteration
			}
			if !yield(k, v) {
				return
			}
		}
	}
}

// RangeChan replaces ranging over a channel.
func RangeChan[T any](ch <-chan T) iter.Seq[T] {
	return func(yield func(T) bool) {
		for {
			v, ok := Recv2(ch)
			if !ok {
				return
			}
			if !yield(v) {
				return
			}
		}
	}
}
