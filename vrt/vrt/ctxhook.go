package vrt

// Support for the context shim: context.AfterFunc callbacks run as managed threads, started when a
// cancellation made through the shim completes.

type afterFunc struct {
	isDone  func() bool
	f       func()
	stopped bool
	started bool
}

// RegisterAfterFunc arranges for f to run in its own managed thread once isDone reports true
// (checked after every cancellation made through the context shim, and at registration).
//
//go:norace
func RegisterAfterFunc(isDone func() bool, f func()) (stop func() bool) {
	s := S
	a := &afterFunc{isDone: isDone, f: f}
	s.afterFuncs = append(s.afterFuncs, a)
	if isDone() {
		a.started = true
		GoNamed("afterfunc", f)
	}
	return func() bool {
		if a.started || a.stopped {
			return false
		}
		a.stopped = true
		return true
	}
}

// AfterCancel is called by the context shim after a cancellation.
//
//go:norace
func AfterCancel() {
	s := S
	if s == nil || s.aborting {
		return
	}
	k := 0
	for _, a := range s.afterFuncs {
		if a.stopped || a.started {
			continue
		}
		if a.isDone() {
			a.started = true
			GoNamed("afterfunc", a.f)
			continue
		}
		s.afterFuncs[k] = a
		k++
	}
	s.afterFuncs = s.afterFuncs[:k]
}
