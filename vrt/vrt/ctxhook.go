package vrt

import "unsafe"

// Support for the context shim: context.AfterFunc callbacks run as managed threads, started when a
// cancellation made through the shim completes.

type afterFunc struct {
	isDone  func() bool
	f       func()
	stopped bool
	started bool
	hb      byte // registration happens-before the callback (as through the context's mutex)
}

//go:norace
func (a *afterFunc) start() {
	a.started = true
	GoNamed("afterfunc", func() {
		RaceAcquire(unsafe.Pointer(&a.hb))
		a.f()
	})
}

// RegisterAfterFunc arranges for f to run in its own managed thread once isDone reports true
// (checked after every cancellation made through the context shim, and at registration).
//
//go:norace
func RegisterAfterFunc(isDone func() bool, f func()) (stop func() bool) {
	s := S
	a := &afterFunc{isDone: isDone, f: f}
	RaceReleaseMerge(unsafe.Pointer(&a.hb))
	s.afterFuncs = append(s.afterFuncs, a)
	s.noPoint++
	done := isDone()
	s.noPoint--
	if done {
		a.start()
	}
	return func() bool {
		if a.started || a.stopped {
			return false
		}
		a.stopped = true
		return true
	}
}

// AfterCancel is called by the context shim after a cancellation.
//
//go:norace
func AfterCancel() {
	s := S
	if s == nil || s.aborting {
		return
	}
	// isDone polls a context (Err), which is a scheduling point in program code; here it is the
	// scheduler's own bookkeeping and must not yield: another thread registering or cancelling meanwhile
	// would change the list under the loop (two workers leaving exec at once did)
	s.noPoint++
	k := 0
	for _, a := range s.afterFuncs {
		if a.stopped || a.started {
			continue
		}
		if a.isDone() {
			a.start()
			continue
		}
		s.afterFuncs[k] = a
		k++
	}
	s.afterFuncs = s.afterFuncs[:k]
	s.noPoint--
}
