package vrt

import (
	"os"
	"path/filepath"
	"sync/atomic"
	"syscall"
)

// Persistent-state mutation log: the os and badger shims append to it while Rec != nil. A crash image
// is a prefix of the log applied to the (empty) initial state.

type MutKind uint8

const (
	MutMkdir MutKind = iota
	MutCreate
	MutWrite
	MutRemove
	MutRename
	MutKV // one committed KV transaction: volume Path, version Off
)

type Mutation struct {
	Kind MutKind
	Path string
	To   string // rename target
	Off  int64
	Data []byte
	Site string
}

func (m Mutation) String() string {
	switch m.Kind {
	case MutMkdir:
		return "mkdir " + m.Path
	case MutCreate:
		return "create " + m.Path
	case MutWrite:
		return "write " + m.Path
	case MutRemove:
		return "remove " + m.Path
	case MutRename:
		return "rename " + m.Path
	case MutKV:
		return "kv-commit " + m.Site
	}
	return "?"
}

type Recorder struct {
	Log []Mutation
}

// Rec is the active recorder (nil: off). Only used by single-client tiers.
var Rec *Recorder

//go:norace
func Record(m Mutation) {
	if r := Rec; r != nil {
		if m.Kind == MutWrite {
			m.Data = append([]byte(nil), m.Data...)
		}
		r.Log = append(r.Log, m)
	}
}

// ApplyFS applies the file-system mutations of log[:n] (KV entries are skipped). If tornLast >= 0 and
// the n-th entry (log[n]) is a write, its first tornLast bytes are applied as well.
func ApplyFS(log []Mutation, n int, tornLast int) error {
	for i := 0; i < n && i < len(log); i++ {
		if err := applyOne(log[i], -1); err != nil {
			return err
		}
	}
	if tornLast >= 0 && n < len(log) && log[n].Kind == MutWrite {
		return applyOne(log[n], tornLast)
	}
	return nil
}

func applyOne(m Mutation, torn int) error {
	switch m.Kind {
	case MutMkdir:
		return os.MkdirAll(m.Path, 0o750)
	case MutCreate:
		f, err := os.Create(m.Path)
		if err != nil {
			return err
		}
		return f.Close()
	case MutWrite:
		f, err := os.OpenFile(m.Path, os.O_WRONLY, 0)
		if err != nil {
			return err
		}
		d := m.Data
		if torn >= 0 && torn < len(d) {
			d = d[:torn]
		}
		_, err = f.WriteAt(d, m.Off)
		f.Close()
		return err
	case MutRemove:
		err := os.Remove(m.Path)
		if os.IsNotExist(err) {
			return nil
		}
		return err
	case MutRename:
		return os.Rename(m.Path, m.To)
	}
	return nil
}

// WipeDir removes everything below dir (keeps dir).
func WipeDir(dir string) error {
	ents, err := os.ReadDir(dir)
	if err != nil {
		if os.IsNotExist(err) {
			return os.MkdirAll(dir, 0o750)
		}
		return err
	}
	for _, e := range ents {
		if err := os.RemoveAll(filepath.Join(dir, e.Name())); err != nil {
			return err
		}
	}
	return nil
}

// ---------------------------------------------------------------------------------------------
// Real-tier crash support: count persistent mutations and kill the process at the n-th.

var (
	MutCount atomic.Int64
	KillAt   atomic.Int64 // 0 = never
)

// CountMutation is called by the os and badger shims immediately before a persistent mutation.
func CountMutation() {
	n := MutCount.Add(1)
	if k := KillAt.Load(); k > 0 && n == k {
		syscall.Kill(syscall.Getpid(), syscall.SIGKILL)
		select {}
	}
}

// ---------------------------------------------------------------------------------------------
// Fault injection on file writes (ENOSPC), decided by the harness.

// WriteFault is consulted before every File.Write. It returns (n, err, true) to make the write fail
// after n bytes (0 <= n < len(p)) with err.
var WriteFault func(path string, p []byte) (n int, err error, fire bool)
