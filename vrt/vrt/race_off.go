//go:build !race

package vrt

import "unsafe"

const RaceEnabled = false

func raceDisable() {}
func raceEnable()  {}

func RaceAcquire(p unsafe.Pointer)      {}
func RaceRelease(p unsafe.Pointer)      {}
func RaceReleaseMerge(p unsafe.Pointer) {}
func RaceRead(p unsafe.Pointer)         {}
func RaceWrite(p unsafe.Pointer)        {}
func RaceErrors() int                   { return 0 }

func raceWindowBegin() {}
func raceWindowEnd()   {}
