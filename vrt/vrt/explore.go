package vrt

import (
	"fmt"
	"os"
	"strings"
)

type choiceKind uint8

const (
	choiceThread choiceKind = iota // which enabled thread runs next (+ early timers)
	choiceData                     // environment answer, non-default costs one deviation
	choiceFree                     // environment answer enumerated completely, no cost
)

// pointRec is one recorded choice point of an execution.
type pointRec struct {
	kind   choiceKind
	n      int  // number of options
	nReal  int  // options below nReal are threads; the rest are early timers
	curEn  bool // option 0 is "continue the running thread"
	chosen int
	label  string // trace mode only
}

// Result is what one execution produced.
type Result struct {
	Verdict string // "" = property held in this execution
	Outcome string // harness-defined key of the observable outcome (for distinct-outcome counting)
	Choices []int
	Points  int
	Trace   []string
	Sites   []string // deviation sites (trace mode): what the preempted thread was about to do
	Steps   int
}

// Explorer enumerates the choice sequences of a body up to a deviation bound.
type Explorer struct {
	Bound    int
	MaxExecs int64 // 0 = unlimited; when hit, Capped is set
	MaxViol  int   // stop after this many violating executions (default 1)
	Deadline func() bool
	OnResult func(r *Result) // called for every execution (after the body's own verdict)

	prefix         []int
	pos            int
	rec            []pointRec
	trace          bool
	tlog           []string
	leaked         int
	unwound        chan struct{}
	inWindow       bool
	TeardownPanics int64

	Execs      int64
	PointsSum  int64
	TreeNodes  int64
	Divergent  int64
	Capped     bool
	Outcomes   map[string]int64
	Violations []*Result
	MaxPoints  int
	LeakedSum  int64
}

//go:norace
func (e *Explorer) choose(s *Sched, kind choiceKind, ids []int, curEn bool, nEarly int) int {
	n := len(ids) + nEarly
	if n == 1 || (!s.branching && kind != choiceFree) {
		if e.trace {
			e.tlog = append(e.tlog, fmt.Sprintf("      (forced) %s", e.describe(s, kind, ids, 0)))
		}
		return 0
	}
	k := 0
	if e.pos < len(e.prefix) {
		k = e.prefix[e.pos]
		if k >= n {
			// replay divergence: the recorded choice does not exist here
			e.Divergent++
			if s.verdict == "" {
				s.verdict = fmt.Sprintf("vrt-divergence: step %d wants choice %d of %d", e.pos, k, n)
			}
			k = 0
		}
	}
	e.pos++
	p := pointRec{kind: kind, n: n, nReal: len(ids), curEn: curEn, chosen: k}
	if e.trace {
		p.label = e.describe(s, kind, ids, k)
		e.tlog = append(e.tlog, fmt.Sprintf("%4d  choose %d/%d  %s", len(e.rec), k, n, p.label))
	}
	e.rec = append(e.rec, p)
	return k
}

//go:norace
func (e *Explorer) describe(s *Sched, kind choiceKind, ids []int, k int) string {
	if kind != choiceThread {
		return fmt.Sprintf("data[%s] by T%d", s.cur.site, s.cur.ID)
	}
	var b []string
	for i, id := range ids {
		t := s.threads[id]
		m := ""
		if i == k {
			m = "*"
		}
		b = append(b, fmt.Sprintf("%sT%d:%s:%s", m, id, t.kind, t.site))
	}
	if k >= len(ids) {
		b = append(b, fmt.Sprintf("*early-timer%d", k-len(ids)))
	}
	return strings.Join(b, "  ")
}

func (p *pointRec) altCost(alt int) int {
	switch p.kind {
	case choiceFree:
		return 0
	case choiceData:
		if alt != 0 {
			return 1
		}
		return 0
	}
	if alt == 0 {
		return 0
	}
	if alt >= p.nReal { // early timer
		if Opt.FreeTimers {
			return 0
		}
		return 1
	}
	if p.curEn { // switching away from a runnable thread
		return 1
	}
	return 0
}

// RunOnce executes body under the schedule prefix (default choices after it).
func (e *Explorer) RunOnce(prefix []int, trace bool, body func() (verdict, outcome string)) *Result {
	e.prefix, e.pos, e.rec, e.trace, e.tlog = prefix, 0, e.rec[:0], trace, nil
	if e.unwound == nil {
		e.unwound = make(chan struct{})
	}
	s := &Sched{exp: e, finished: make(chan struct{}), branching: true,
		objIDs: map[any]int{}, Values: map[string]any{}}
	main := &Thread{ID: 0, Name: "main", wake: make(chan int, 1), kind: OpHarness, selDone: -1}
	s.threads = []*Thread{main}
	s.cur = main
	S = s
	var verdict, outcome string
	live.Add(1)
	go func() {
		defer live.Done()
		defer threadExit(s, main)
		verdict, outcome = body()
	}()
	<-s.finished
	live.Wait()
	if e.inWindow {
		e.inWindow = false
		raceWindowEnd()
	}
	S = nil
	globalSteps += int64(s.steps) + 1
	r := &Result{Verdict: verdict, Outcome: outcome, Points: len(e.rec), Steps: s.steps}
	if s.verdict != "" {
		r.Verdict = s.verdict
		if r.Outcome == "" {
			r.Outcome = "sched:" + firstWord(s.verdict)
		}
	}
	r.Choices = make([]int, len(e.rec))
	for i := range e.rec {
		r.Choices[i] = e.rec[i].chosen
	}
	if trace {
		r.Trace = e.tlog
		for i := range e.rec {
			p := &e.rec[i]
			if p.altCost(p.chosen) > 0 {
				r.Sites = append(r.Sites, p.label)
			}
		}
	}
	e.LeakedSum += int64(e.leaked)
	e.leaked = 0
	return r
}

func firstWord(s string) string {
	if i := strings.IndexAny(s, ": "); i > 0 {
		return s[:i]
	}
	return s
}

func prefixCost(rec []pointRec, upto int) int {
	c := 0
	for i := 0; i < upto && i < len(rec); i++ {
		c += rec[i].altCost(rec[i].chosen)
	}
	return c
}

// Explore runs the whole tree below prefix (the prefix execution included).
func (e *Explorer) Explore(prefix []int, body func() (string, string)) {
	if e.Outcomes == nil {
		e.Outcomes = map[string]int64{}
	}
	if e.MaxViol == 0 {
		e.MaxViol = 1
	}
	e.explore(prefix, body)
}

func (e *Explorer) stop() bool {
	if len(e.Violations) >= e.MaxViol {
		return true
	}
	if e.MaxExecs > 0 && e.Execs >= e.MaxExecs {
		e.Capped = true
		return true
	}
	if e.Deadline != nil && e.Deadline() {
		e.Capped = true
		return true
	}
	return false
}

func (e *Explorer) explore(prefix []int, body func() (string, string)) {
	if e.stop() {
		return
	}
	r := e.RunOnce(prefix, false, body)
	rec := append([]pointRec(nil), e.rec...)
	e.account(r, len(prefix))
	if r.Verdict != "" {
		if strings.HasPrefix(r.Verdict, "vrt-divergence") {
			return
		}
		e.Violations = append(e.Violations, r)
		if e.stop() {
			return
		}
	}
	cost := prefixCost(rec, len(prefix))
	for i := len(prefix); i < len(rec); i++ {
		p := &rec[i]
		for alt := 1; alt < p.n; alt++ {
			if cost+p.altCost(alt) > e.Bound {
				continue
			}
			np := make([]int, i+1)
			copy(np, r.Choices[:i])
			np[i] = alt
			e.explore(np, body)
			if e.stop() {
				return
			}
		}
		cost += p.altCost(p.chosen)
	}
}

func (e *Explorer) account(r *Result, prefixLen int) {
	e.Execs++
	e.PointsSum += int64(r.Steps)
	if n := r.Points - prefixLen; n > 0 {
		e.TreeNodes += int64(n)
	} else {
		e.TreeNodes++
	}
	if r.Points > e.MaxPoints {
		e.MaxPoints = r.Points
	}
	e.Outcomes[r.Outcome]++
	if e.OnResult != nil {
		e.OnResult(r)
	}
}

// Frontier runs the executions with fewer than depth deviations... it enumerates the sub-tree roots
// (prefixes) obtained by taking exactly one alternative below each execution it runs itself, down to
// `levels` levels; the executions it runs are accounted here, the returned prefixes are not yet run.
func (e *Explorer) Frontier(levels int, body func() (string, string)) [][]int {
	if e.Outcomes == nil {
		e.Outcomes = map[string]int64{}
	}
	if e.MaxViol == 0 {
		e.MaxViol = 1
	}
	var out [][]int
	var walk func(prefix []int, level int)
	walk = func(prefix []int, level int) {
		if e.stop() {
			return
		}
		r := e.RunOnce(prefix, false, body)
		rec := append([]pointRec(nil), e.rec...)
		e.account(r, len(prefix))
		if r.Verdict != "" {
			if strings.HasPrefix(r.Verdict, "vrt-divergence") {
				return
			}
			e.Violations = append(e.Violations, r)
			if e.stop() {
				return
			}
		}
		cost := prefixCost(rec, len(prefix))
		for i := len(prefix); i < len(rec); i++ {
			p := &rec[i]
			for alt := 1; alt < p.n; alt++ {
				if cost+p.altCost(alt) > e.Bound {
					continue
				}
				np := make([]int, i+1)
				copy(np, r.Choices[:i])
				np[i] = alt
				if level+1 >= levels {
					out = append(out, np)
				} else {
					walk(np, level+1)
				}
			}
			cost += p.altCost(p.chosen)
		}
	}
	walk(nil, 0)
	return out
}

// Replay runs one schedule with tracing and returns the result (with Trace and Sites filled).
func (e *Explorer) Replay(choices []int, body func() (string, string)) *Result {
	return e.RunOnce(choices, true, body)
}

func Debugf(format string, a ...any) {
	if os.Getenv("VRT_DEBUG") != "" {
		fmt.Fprintf(os.Stderr, format+"\n", a...)
	}
}
