package vrt

import (
	"reflect"
)

// Case is one arm of a (managed) select.
type Case interface {
	ready(s *Sched, t *Thread) bool
	do(s *Sched, t *Thread, idx int) bool
	ptr() uintptr
	recv() bool
	rcase() reflect.SelectCase
	set(v reflect.Value, ok bool)
}

// RCase is a receive arm; after Select returned its index, V and Ok hold the received value.
type RCase[T any] struct {
	ch      <-chan T
	p       uintptr
	V       T
	Ok      bool
	stashed bool
}

// SCase is a send arm.
type SCase[T any] struct {
	ch chan<- T
	p  uintptr
	v  T
}

//go:norace
func RecvCase[T any](ch <-chan T) *RCase[T] {
	c := &RCase[T]{ch: ch}
	if ch != nil {
		c.p = reflect.ValueOf(ch).Pointer()
	}
	return c
}

//go:norace
func SendCase[T any](ch chan<- T, v T) *SCase[T] {
	c := &SCase[T]{ch: ch, v: v}
	if ch != nil {
		c.p = reflect.ValueOf(ch).Pointer()
	}
	return c
}

//go:norace
func (c *RCase[T]) ptr() uintptr { return c.p }

//go:norace
func (c *RCase[T]) recv() bool { return true }

//go:norace
func (c *RCase[T]) rcase() reflect.SelectCase {
	return reflect.SelectCase{Dir: reflect.SelectRecv, Chan: reflect.ValueOf(c.ch)}
}

//go:norace
func (c *RCase[T]) set(v reflect.Value, ok bool) {
	c.Ok = ok
	if ok {
		c.V = v.Interface().(T)
	}
}

//go:norace
func (c *RCase[T]) ready(s *Sched, t *Thread) bool {
	if c.ch == nil {
		return false
	}
	if c.stashed || len(c.ch) > 0 {
		return true
	}
	// empty: a non-blocking receive succeeds only if the channel is closed (ok == false); should an
	// unmanaged sender have slipped a value in, keep it.
	select {
	case v, ok := <-c.ch:
		if ok {
			c.V, c.Ok, c.stashed = v, ok, true
		}
		// closed: nothing is kept — the owning thread receives again itself, so that the
		// happens-before edge of the close lands on its own goroutine
		return true
	default:
	}
	if cap(c.ch) == 0 {
		return s.partner(t, c.p, false) != nil
	}
	return false
}

//go:norace
func (c *RCase[T]) do(s *Sched, t *Thread, idx int) bool {
	if c.stashed {
		c.stashed = false
		return true
	}
	select {
	case v, ok := <-c.ch:
		c.V, c.Ok = v, ok
		return true
	default:
	}
	if cap(c.ch) == 0 {
		if pt := s.partner(t, c.p, false); pt != nil {
			for i, oc := range pt.cases {
				if sc, ok := oc.(*SCase[T]); ok && sc.p == c.p {
					c.V, c.Ok = sc.v, true
					pt.selDone = i
					return true
				}
			}
		}
	}
	return false
}

//go:norace
func (c *SCase[T]) ptr() uintptr { return c.p }

//go:norace
func (c *SCase[T]) recv() bool { return false }

//go:norace
func (c *SCase[T]) rcase() reflect.SelectCase {
	return reflect.SelectCase{Dir: reflect.SelectSend, Chan: reflect.ValueOf(c.ch), Send: reflect.ValueOf(c.v)}
}

//go:norace
func (c *SCase[T]) set(reflect.Value, bool) {}

//go:norace
func (c *SCase[T]) ready(s *Sched, t *Thread) bool {
	if c.ch == nil {
		return false
	}
	if s.isClosed(c.p) {
		return true // proceeds and panics, as in Go
	}
	if cap(c.ch) > 0 {
		return len(c.ch) < cap(c.ch)
	}
	return s.partner(t, c.p, true) != nil
}

//go:norace
func (c *SCase[T]) do(s *Sched, t *Thread, idx int) bool {
	if s.isClosed(c.p) {
		panic("send on closed channel")
	}
	if cap(c.ch) > 0 {
		select {
		case c.ch <- c.v:
			return true
		default:
			return false
		}
	}
	if pt := s.partner(t, c.p, true); pt != nil {
		for i, oc := range pt.cases {
			if rc, ok := oc.(*RCase[T]); ok && rc.p == c.p {
				rc.V, rc.Ok = c.v, true
				pt.selDone = i
				return true
			}
		}
	}
	return false
}

// partner finds another thread parked in a select with an arm of the opposite direction on the same
// unbuffered channel.
//
//go:norace
func (s *Sched) partner(me *Thread, p uintptr, wantRecv bool) *Thread {
	for _, t := range s.threads {
		if t == me || t.done || t.kind != OpSelect || t.selDone >= 0 || t == s.cur {
			continue
		}
		for _, c := range t.cases {
			if c.ptr() == p && c.recv() == wantRecv {
				return t
			}
		}
	}
	return nil
}

//go:norace
func selectEnabled(s *Sched, t *Thread) bool {
	if t.selDone >= 0 || t.hasDefault {
		return true
	}
	for _, c := range t.cases {
		if c.ready(s, t) {
			return true
		}
	}
	return false
}

// Select performs a select statement. It returns the index of the arm that fired, -1 for default.
//
//go:norace
func Select(hasDefault bool, cases ...Case) int {
	s := S
	if s == nil {
		scs := make([]reflect.SelectCase, 0, len(cases)+1)
		for _, c := range cases {
			scs = append(scs, c.rcase())
		}
		if hasDefault {
			scs = append(scs, reflect.SelectCase{Dir: reflect.SelectDefault})
		}
		i, v, ok := reflect.Select(scs)
		if hasDefault && i == len(cases) {
			return -1
		}
		cases[i].set(v, ok)
		return i
	}
	if s.aborting {
		panic(abortT{})
	}
	t := s.cur
	t.selDone, t.hasDefault = -1, hasDefault
	s.point(OpSelect, nil, cases)
	t.hasDefault = false
	if t.selDone >= 0 {
		i := t.selDone
		t.selDone = -1
		return i
	}
	var rdy []int
	for i, c := range cases {
		if c.ready(s, t) {
			rdy = append(rdy, i)
		}
	}
	if len(rdy) == 0 {
		if hasDefault {
			return -1
		}
		panic("vrt: internal: select resumed with no ready arm")
	}
	k := 0
	if len(rdy) > 1 && Opt.SelectChoice {
		k = Choose(len(rdy), "select-arm", false)
	}
	i := rdy[k]
	if !cases[i].do(s, t, i) {
		panic("vrt: internal: ready arm could not proceed")
	}
	return i
}

//go:norace
func Send[T any](ch chan<- T, v T) {
	if S == nil {
		ch <- v
		return
	}
	Select(false, SendCase(ch, v))
}

//go:norace
func Recv[T any](ch <-chan T) T {
	if S == nil {
		return <-ch
	}
	c := RecvCase(ch)
	Select(false, c)
	return c.V
}

//go:norace
func Recv2[T any](ch <-chan T) (T, bool) {
	if S == nil {
		v, ok := <-ch
		return v, ok
	}
	c := RecvCase(ch)
	Select(false, c)
	return c.V, c.Ok
}

//go:norace
func Close[T any](ch chan<- T) {
	if s := S; s != nil {
		s.point(OpClose, nil, nil)
		p := reflect.ValueOf(ch).Pointer()
		if s.isClosed(p) {
			panic("close of closed channel")
		}
		s.closed = append(s.closed, closedChan{p, ch})
	}
	close(ch)
}
