// Package disk is the verification shim for github.com/shirou/gopsutil/disk: free-space numbers come
// from a table the harness owns.
package disk

import (
	"context"
	"os"
	"path/filepath"
	stdsync "sync"
	"syscall"
)

type UsageStat struct {
	Path              string  `json:"path"`
	Fstype            string  `json:"fstype"`
	Total             uint64  `json:"total"`
	Free              uint64  `json:"free"`
	Used              uint64  `json:"used"`
	UsedPercent       float64 `json:"usedPercent"`
	InodesTotal       uint64  `json:"inodesTotal"`
	InodesUsed        uint64  `json:"inodesUsed"`
	InodesFree        uint64  `json:"inodesFree"`
	InodesUsedPercent float64 `json:"inodesUsedPercent"`
}

const DefaultFree = 1 << 40

var (
	mu   stdsync.Mutex
	free = map[string]uint64{}
	// FreeFunc, when set, overrides the table (called with the cleaned path).
	FreeFunc func(path string) (uint64, bool)
)

// SetFree sets the free space reported for a root (cleaned path); Reset clears the table.
func SetFree(path string, n uint64) {
	mu.Lock()
	free[filepath.Clean(path)] = n
	mu.Unlock()
}

func Reset() {
	mu.Lock()
	free = map[string]uint64{}
	FreeFunc = nil
	mu.Unlock()
}

func Usage(path string) (*UsageStat, error) { return UsageWithContext(context.Background(), path) }

func UsageWithContext(_ context.Context, path string) (*UsageStat, error) {
	if _, err := os.Stat(path); err != nil {
		if os.IsNotExist(err) {
			return nil, syscall.ENOENT
		}
		return nil, err
	}
	p := filepath.Clean(path)
	mu.Lock()
	n, ok := free[p]
	ff := FreeFunc
	mu.Unlock()
	if ff != nil {
		if v, ok2 := ff(p); ok2 {
			n, ok = v, true
		}
	}
	if !ok {
		n = DefaultFree
	}
	total := uint64(1 << 41)
	if n > total {
		total = n
	}
	return &UsageStat{Path: path, Fstype: "verif", Total: total, Free: n, Used: total - n}, nil
}
