// Package atomic is the verification shim for sync/atomic: real atomics underneath, each operation
// preceded by a scheduling point.
package atomic

import (
	stdatomic "sync/atomic"
	"unsafe"

	"github.com/glebziz/fs_db/verifrt/vrt"
)

func pt() { vrt.Point(vrt.OpAtomic, nil) }

func AddInt32(addr *int32, delta int32) int32             { pt(); return stdatomic.AddInt32(addr, delta) }
func AddInt64(addr *int64, delta int64) int64             { pt(); return stdatomic.AddInt64(addr, delta) }
func AddUint32(addr *uint32, delta uint32) uint32         { pt(); return stdatomic.AddUint32(addr, delta) }
func AddUint64(addr *uint64, delta uint64) uint64         { pt(); return stdatomic.AddUint64(addr, delta) }
func AddUintptr(addr *uintptr, d uintptr) uintptr         { pt(); return stdatomic.AddUintptr(addr, d) }
func LoadInt32(addr *int32) int32                         { pt(); return stdatomic.LoadInt32(addr) }
func LoadInt64(addr *int64) int64                         { pt(); return stdatomic.LoadInt64(addr) }
func LoadUint32(addr *uint32) uint32                      { pt(); return stdatomic.LoadUint32(addr) }
func LoadUint64(addr *uint64) uint64                      { pt(); return stdatomic.LoadUint64(addr) }
func LoadUintptr(addr *uintptr) uintptr                   { pt(); return stdatomic.LoadUintptr(addr) }
func LoadPointer(addr *unsafe.Pointer) unsafe.Pointer     { pt(); return stdatomic.LoadPointer(addr) }
func StoreInt32(addr *int32, v int32)                     { pt(); stdatomic.StoreInt32(addr, v) }
func StoreInt64(addr *int64, v int64)                     { pt(); stdatomic.StoreInt64(addr, v) }
func StoreUint32(addr *uint32, v uint32)                  { pt(); stdatomic.StoreUint32(addr, v) }
func StoreUint64(addr *uint64, v uint64)                  { pt(); stdatomic.StoreUint64(addr, v) }
func StoreUintptr(addr *uintptr, v uintptr)               { pt(); stdatomic.StoreUintptr(addr, v) }
func StorePointer(addr *unsafe.Pointer, v unsafe.Pointer) { pt(); stdatomic.StorePointer(addr, v) }
func SwapInt32(addr *int32, v int32) int32                { pt(); return stdatomic.SwapInt32(addr, v) }
func SwapInt64(addr *int64, v int64) int64                { pt(); return stdatomic.SwapInt64(addr, v) }
func SwapUint32(addr *uint32, v uint32) uint32            { pt(); return stdatomic.SwapUint32(addr, v) }
func SwapUint64(addr *uint64, v uint64) uint64            { pt(); return stdatomic.SwapUint64(addr, v) }
func SwapUintptr(addr *uintptr, v uintptr) uintptr        { pt(); return stdatomic.SwapUintptr(addr, v) }
func SwapPointer(addr *unsafe.Pointer, v unsafe.Pointer) unsafe.Pointer {
	pt()
	return stdatomic.SwapPointer(addr, v)
}
func CompareAndSwapInt32(addr *int32, o, n int32) bool {
	pt()
	return stdatomic.CompareAndSwapInt32(addr, o, n)
}
func CompareAndSwapInt64(addr *int64, o, n int64) bool {
	pt()
	return stdatomic.CompareAndSwapInt64(addr, o, n)
}
func CompareAndSwapUint32(addr *uint32, o, n uint32) bool {
	pt()
	return stdatomic.CompareAndSwapUint32(addr, o, n)
}
func CompareAndSwapUint64(addr *uint64, o, n uint64) bool {
	pt()
	return stdatomic.CompareAndSwapUint64(addr, o, n)
}
func CompareAndSwapUintptr(addr *uintptr, o, n uintptr) bool {
	pt()
	return stdatomic.CompareAndSwapUintptr(addr, o, n)
}
func CompareAndSwapPointer(addr *unsafe.Pointer, o, n unsafe.Pointer) bool {
	pt()
	return stdatomic.CompareAndSwapPointer(addr, o, n)
}
func AndInt32(addr *int32, mask int32) int32     { pt(); return stdatomic.AndInt32(addr, mask) }
func AndUint32(addr *uint32, mask uint32) uint32 { pt(); return stdatomic.AndUint32(addr, mask) }
func AndInt64(addr *int64, mask int64) int64     { pt(); return stdatomic.AndInt64(addr, mask) }
func AndUint64(addr *uint64, mask uint64) uint64 { pt(); return stdatomic.AndUint64(addr, mask) }
func OrInt32(addr *int32, mask int32) int32      { pt(); return stdatomic.OrInt32(addr, mask) }
func OrUint32(addr *uint32, mask uint32) uint32  { pt(); return stdatomic.OrUint32(addr, mask) }
func OrInt64(addr *int64, mask int64) int64      { pt(); return stdatomic.OrInt64(addr, mask) }
func OrUint64(addr *uint64, mask uint64) uint64  { pt(); return stdatomic.OrUint64(addr, mask) }

type Bool struct{ v stdatomic.Bool }

func (x *Bool) Load() bool                    { pt(); return x.v.Load() }
func (x *Bool) Store(val bool)                { pt(); x.v.Store(val) }
func (x *Bool) Swap(n bool) bool              { pt(); return x.v.Swap(n) }
func (x *Bool) CompareAndSwap(o, n bool) bool { pt(); return x.v.CompareAndSwap(o, n) }

type Int32 struct{ v stdatomic.Int32 }

func (x *Int32) Load() int32                    { pt(); return x.v.Load() }
func (x *Int32) Store(val int32)                { pt(); x.v.Store(val) }
func (x *Int32) Swap(n int32) int32             { pt(); return x.v.Swap(n) }
func (x *Int32) CompareAndSwap(o, n int32) bool { pt(); return x.v.CompareAndSwap(o, n) }
func (x *Int32) Add(d int32) int32              { pt(); return x.v.Add(d) }
func (x *Int32) And(m int32) int32              { pt(); return x.v.And(m) }
func (x *Int32) Or(m int32) int32               { pt(); return x.v.Or(m) }

type Int64 struct{ v stdatomic.Int64 }

func (x *Int64) Load() int64                    { pt(); return x.v.Load() }
func (x *Int64) Store(val int64)                { pt(); x.v.Store(val) }
func (x *Int64) Swap(n int64) int64             { pt(); return x.v.Swap(n) }
func (x *Int64) CompareAndSwap(o, n int64) bool { pt(); return x.v.CompareAndSwap(o, n) }
func (x *Int64) Add(d int64) int64              { pt(); return x.v.Add(d) }
func (x *Int64) And(m int64) int64              { pt(); return x.v.And(m) }
func (x *Int64) Or(m int64) int64               { pt(); return x.v.Or(m) }

type Uint32 struct{ v stdatomic.Uint32 }

func (x *Uint32) Load() uint32                    { pt(); return x.v.Load() }
func (x *Uint32) Store(val uint32)                { pt(); x.v.Store(val) }
func (x *Uint32) Swap(n uint32) uint32            { pt(); return x.v.Swap(n) }
func (x *Uint32) CompareAndSwap(o, n uint32) bool { pt(); return x.v.CompareAndSwap(o, n) }
func (x *Uint32) Add(d uint32) uint32             { pt(); return x.v.Add(d) }
func (x *Uint32) And(m uint32) uint32             { pt(); return x.v.And(m) }
func (x *Uint32) Or(m uint32) uint32              { pt(); return x.v.Or(m) }

type Uint64 struct{ v stdatomic.Uint64 }

func (x *Uint64) Load() uint64                    { pt(); return x.v.Load() }
func (x *Uint64) Store(val uint64)                { pt(); x.v.Store(val) }
func (x *Uint64) Swap(n uint64) uint64            { pt(); return x.v.Swap(n) }
func (x *Uint64) CompareAndSwap(o, n uint64) bool { pt(); return x.v.CompareAndSwap(o, n) }
func (x *Uint64) Add(d uint64) uint64             { pt(); return x.v.Add(d) }
func (x *Uint64) And(m uint64) uint64             { pt(); return x.v.And(m) }
func (x *Uint64) Or(m uint64) uint64              { pt(); return x.v.Or(m) }

type Uintptr struct{ v stdatomic.Uintptr }

func (x *Uintptr) Load() uintptr                    { pt(); return x.v.Load() }
func (x *Uintptr) Store(val uintptr)                { pt(); x.v.Store(val) }
func (x *Uintptr) Swap(n uintptr) uintptr           { pt(); return x.v.Swap(n) }
func (x *Uintptr) CompareAndSwap(o, n uintptr) bool { pt(); return x.v.CompareAndSwap(o, n) }
func (x *Uintptr) Add(d uintptr) uintptr            { pt(); return x.v.Add(d) }

type Pointer[T any] struct{ v stdatomic.Pointer[T] }

func (x *Pointer[T]) Load() *T                    { pt(); return x.v.Load() }
func (x *Pointer[T]) Store(val *T)                { pt(); x.v.Store(val) }
func (x *Pointer[T]) Swap(n *T) *T                { pt(); return x.v.Swap(n) }
func (x *Pointer[T]) CompareAndSwap(o, n *T) bool { pt(); return x.v.CompareAndSwap(o, n) }

type Value struct{ v stdatomic.Value }

func (x *Value) Load() any                    { pt(); return x.v.Load() }
func (x *Value) Store(val any)                { pt(); x.v.Store(val) }
func (x *Value) Swap(n any) any               { pt(); return x.v.Swap(n) }
func (x *Value) CompareAndSwap(o, n any) bool { pt(); return x.v.CompareAndSwap(o, n) }
