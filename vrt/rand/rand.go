// Package rand is the verification shim for math/rand/v2. Under the scheduler the order produced by
// Shuffle/Perm and the value of bounded draws are explicit environment choices of the explorer
// (default: identity order / 0); otherwise it delegates to the real generator. A harness may install
// ShuffleHook to dictate orders in free-running or sequential tiers.
package rand

import (
	stdrand "math/rand/v2"

	"github.com/glebziz/fs_db/verifrt/vrt"
)

type (
	Source  = stdrand.Source
	PCG     = stdrand.PCG
	ChaCha8 = stdrand.ChaCha8
)

func NewPCG(seed1, seed2 uint64) *PCG   { return stdrand.NewPCG(seed1, seed2) }
func NewChaCha8(seed [32]byte) *ChaCha8 { return stdrand.NewChaCha8(seed) }

// ShuffleHook, when set, decides the permutation of every Shuffle: it returns the index k of the
// permutation of n elements (0 = identity) in the lexicographic order of vrt.Permutation.
var ShuffleHook func(n int) int

// Rand mirrors rand.Rand. state is written without synchronisation on every draw, exactly like the
// generator state of the real type, so that unsynchronised sharing is visible to the race detector.
type Rand struct {
	real  *stdrand.Rand
	state uint64
}

func New(src Source) *Rand { return &Rand{real: stdrand.New(src)} }

func (r *Rand) touch() { r.state++ }

func fact(n int) int {
	f := 1
	for i := 2; i <= n; i++ {
		f *= i
		if f > 1<<20 {
			return 1 << 20
		}
	}
	return f
}

// Permutation returns the k-th permutation (lexicographic) of 0..n-1.
func Permutation(n, k int) []int {
	elems := make([]int, n)
	for i := range elems {
		elems[i] = i
	}
	out := make([]int, 0, n)
	f := fact(n)
	for i := n; i > 0; i-- {
		f /= i
		j := 0
		if f > 0 {
			j = k / f
			k %= f
		}
		if j >= len(elems) {
			j = len(elems) - 1
		}
		out = append(out, elems[j])
		elems = append(elems[:j], elems[j+1:]...)
	}
	return out
}

func controlled() bool { return vrt.Managed() || ShuffleHook != nil }

func pickPerm(n int) []int {
	if n < 2 {
		return Permutation(n, 0)
	}
	k := 0
	if ShuffleHook != nil {
		k = ShuffleHook(n)
	} else if n <= 6 {
		k = vrt.Choose(fact(n), "shuffle", false)
	}
	return Permutation(n, k)
}

// applyPerm rearranges, using only swap, so that position i finally holds the element that was at perm[i].
func applyPerm(perm []int, swap func(i, j int)) {
	n := len(perm)
	pos := make([]int, n) // pos[e] = current position of original element e
	at := make([]int, n)  // at[p] = original element currently at position p
	for i := 0; i < n; i++ {
		pos[i], at[i] = i, i
	}
	for i := 0; i < n; i++ {
		want := perm[i]
		j := pos[want]
		if j != i {
			swap(i, j)
			ei := at[i]
			at[i], at[j] = want, ei
			pos[want], pos[ei] = i, j
		}
	}
}

func (r *Rand) Shuffle(n int, swap func(i, j int)) {
	if n >= 2 {
		r.touch() // the real Shuffle draws (touches the generator state) only for n >= 2
	}
	if !controlled() {
		r.real.Shuffle(n, swap)
		return
	}
	applyPerm(pickPerm(n), swap)
}

func (r *Rand) Perm(n int) []int {
	if n >= 2 {
		r.touch()
	}
	if !controlled() {
		return r.real.Perm(n)
	}
	return pickPerm(n)
}

func (r *Rand) bounded(n int) int {
	r.touch()
	if n <= 1 {
		return 0
	}
	if n <= 8 {
		return vrt.Choose(n, "rand", false)
	}
	return 0
}

func (r *Rand) IntN(n int) int {
	if !vrt.Managed() {
		r.touch()
		return r.real.IntN(n)
	}
	return r.bounded(n)
}
func (r *Rand) Int64N(n int64) int64 {
	if !vrt.Managed() {
		r.touch()
		return r.real.Int64N(n)
	}
	return int64(r.bounded(int(min(n, 1<<30))))
}
func (r *Rand) Uint64N(n uint64) uint64 {
	if !vrt.Managed() {
		r.touch()
		return r.real.Uint64N(n)
	}
	return uint64(r.bounded(int(min(n, 1<<30))))
}
func (r *Rand) Int32N(n int32) int32    { return int32(r.IntN(int(n))) }
func (r *Rand) Uint32N(n uint32) uint32 { return uint32(r.Uint64N(uint64(n))) }
func (r *Rand) Int() int {
	r.touch()
	if vrt.Managed() {
		return 0
	}
	return r.real.Int()
}
func (r *Rand) Int64() int64 {
	r.touch()
	if vrt.Managed() {
		return 0
	}
	return r.real.Int64()
}
func (r *Rand) Int32() int32 { return int32(r.Int64()) }
func (r *Rand) Uint64() uint64 {
	r.touch()
	if vrt.Managed() {
		return 0
	}
	return r.real.Uint64()
}
func (r *Rand) Uint32() uint32 { return uint32(r.Uint64()) }
func (r *Rand) Float64() float64 {
	r.touch()
	if vrt.Managed() {
		return 0
	}
	return r.real.Float64()
}
func (r *Rand) Float32() float32 { return float32(r.Float64()) }

// top-level functions (the global generator is safe for concurrent use: no state touch)
func Uint64() uint64 {
	if vrt.Managed() {
		return 0
	}
	return stdrand.Uint64()
}
func Uint32() uint32 { return uint32(Uint64()) }
func Int() int {
	if vrt.Managed() {
		return 0
	}
	return stdrand.Int()
}
func Int64() int64 { return int64(Int()) }
func Int32() int32 { return int32(Int()) }
func IntN(n int) int {
	if vrt.Managed() {
		if n <= 8 {
			return vrt.Choose(n, "rand", false)
		}
		return 0
	}
	return stdrand.IntN(n)
}
func Int64N(n int64) int64    { return int64(IntN(int(min(n, 1<<30)))) }
func Uint64N(n uint64) uint64 { return uint64(IntN(int(min(n, 1<<30)))) }
func Int32N(n int32) int32    { return int32(IntN(int(n))) }
func Uint32N(n uint32) uint32 { return uint32(IntN(int(min(n, 1<<30)))) }
func Float64() float64 {
	if vrt.Managed() {
		return 0
	}
	return stdrand.Float64()
}
func Float32() float32 { return float32(Float64()) }
func Perm(n int) []int {
	if !controlled() {
		return stdrand.Perm(n)
	}
	return pickPerm(n)
}
func Shuffle(n int, swap func(i, j int)) {
	if !controlled() {
		stdrand.Shuffle(n, swap)
		return
	}
	applyPerm(pickPerm(n), swap)
}
func N[Int interface {
	~int | ~int8 | ~int16 | ~int32 | ~int64 | ~uint | ~uint8 | ~uint16 | ~uint32 | ~uint64 | ~uintptr
}](n Int) Int {
	return Int(IntN(int(n)))
}
