// Package badger is the verification shim for github.com/dgraph-io/badger/v3 as used by fs_db: the
// transactional API subset over one of two engines — an in-memory multi-version store (snapshot
// reads, atomic commits, conflict detection for read-write transactions, directory lock per path,
// volumes that survive Close and can be cloned at any past version: crash images), or the real
// Badger engine wrapped so that commits are counted (real-tier crash points).
package badger

import (
	"bytes"
	"errors"
	"fmt"
	"path/filepath"
	"sort"
	"strings"
	stdsync "sync"
	"time"

	rb "github.com/dgraph-io/badger/v3"

	"github.com/glebziz/fs_db/verifrt/vrt"
)

// UseReal selects the real engine for databases opened from now on.
var UseReal bool

var (
	ErrKeyNotFound         = rb.ErrKeyNotFound
	ErrConflict            = rb.ErrConflict
	ErrEmptyKey            = rb.ErrEmptyKey
	ErrInvalidKey          = rb.ErrInvalidKey
	ErrDBClosed            = rb.ErrDBClosed
	ErrDiscardedTxn        = rb.ErrDiscardedTxn
	ErrReadOnlyTxn         = rb.ErrReadOnlyTxn
	ErrTxnTooBig           = rb.ErrTxnTooBig
	ErrNoRewrite           = rb.ErrNoRewrite
	ErrRejected            = rb.ErrRejected
	ErrInvalidRequest      = rb.ErrInvalidRequest
	ErrBannedKey           = rb.ErrBannedKey
	ErrValueLogSize        = rb.ErrValueLogSize
	ErrThresholdZero       = rb.ErrThresholdZero
	ErrBlockedWrites       = rb.ErrBlockedWrites
	ErrNilCallback         = rb.ErrNilCallback
	ErrTruncateNeeded      = rb.ErrTruncateNeeded
	ErrWindowsNotSupported = rb.ErrWindowsNotSupported
	ErrPlan9NotSupported   = rb.ErrPlan9NotSupported
	ErrZeroBandwidth       = rb.ErrZeroBandwidth
	ErrInvalidDump         = rb.ErrInvalidDump
	ErrGCInMemoryMode      = rb.ErrGCInMemoryMode
)

type Logger = rb.Logger

// ---------------------------------------------------------------- options

type Options struct {
	Dir      string
	ValueDir string
	real     rb.Options
}

func DefaultOptions(path string) Options {
	return Options{Dir: path, ValueDir: path, real: rb.DefaultOptions(path)}
}

func (o Options) WithLogger(l Logger) Options { o.real = o.real.WithLogger(l); return o }
func (o Options) WithDir(d string) Options    { o.Dir = d; o.real = o.real.WithDir(d); return o }
func (o Options) WithValueDir(d string) Options {
	o.ValueDir = d
	o.real = o.real.WithValueDir(d)
	return o
}
func (o Options) WithSyncWrites(b bool) Options { o.real = o.real.WithSyncWrites(b); return o }
func (o Options) WithInMemory(b bool) Options   { o.real = o.real.WithInMemory(b); return o }
func (o Options) WithReadOnly(b bool) Options   { o.real = o.real.WithReadOnly(b); return o }
func (o Options) WithNumVersionsToKeep(n int) Options {
	o.real = o.real.WithNumVersionsToKeep(n)
	return o
}
func (o Options) WithValueLogFileSize(n int64) Options {
	o.real = o.real.WithValueLogFileSize(n)
	return o
}
func (o Options) WithMemTableSize(n int64) Options   { o.real = o.real.WithMemTableSize(n); return o }
func (o Options) WithValueThreshold(n int64) Options { o.real = o.real.WithValueThreshold(n); return o }
func (o Options) WithNumMemtables(n int) Options     { o.real = o.real.WithNumMemtables(n); return o }
func (o Options) WithNumCompactors(n int) Options    { o.real = o.real.WithNumCompactors(n); return o }
func (o Options) WithCompactL0OnClose(b bool) Options {
	o.real = o.real.WithCompactL0OnClose(b)
	return o
}
func (o Options) WithDetectConflicts(b bool) Options {
	o.real = o.real.WithDetectConflicts(b)
	return o
}
func (o Options) WithBlockCacheSize(n int64) Options { o.real = o.real.WithBlockCacheSize(n); return o }
func (o Options) WithIndexCacheSize(n int64) Options { o.real = o.real.WithIndexCacheSize(n); return o }
func (o Options) WithMetricsEnabled(b bool) Options  { o.real = o.real.WithMetricsEnabled(b); return o }

type IteratorOptions struct {
	PrefetchSize   int
	PrefetchValues bool
	Reverse        bool
	AllVersions    bool
	InternalAccess bool
	Prefix         []byte
	SinceTs        uint64
}

var DefaultIteratorOptions = IteratorOptions{PrefetchValues: true, PrefetchSize: 100}

func (o IteratorOptions) toReal() rb.IteratorOptions {
	return rb.IteratorOptions{PrefetchSize: o.PrefetchSize, PrefetchValues: o.PrefetchValues, Reverse: o.Reverse,
		AllVersions: o.AllVersions, InternalAccess: o.InternalAccess, Prefix: o.Prefix, SinceTs: o.SinceTs}
}

// ---------------------------------------------------------------- in-memory volumes

type ver struct {
	ts  uint64
	val []byte
	del bool
}

type volume struct {
	mu   stdsync.Mutex
	path string
	ts   uint64
	data map[string][]ver
	open bool
}

var (
	volMu   stdsync.Mutex
	volumes = map[string]*volume{}
)

func getVolume(path string, create bool) *volume {
	path = filepath.Clean(path)
	volMu.Lock()
	defer volMu.Unlock()
	v := volumes[path]
	if v == nil && create {
		v = &volume{path: path, data: map[string][]ver{}}
		volumes[path] = v
	}
	return v
}

// ResetVolumes forgets every in-memory volume.
func ResetVolumes() {
	volMu.Lock()
	volumes = map[string]*volume{}
	volMu.Unlock()
}

// ResetVolumesExcept forgets every volume whose path does not start with keepPrefix.
func ResetVolumesExcept(keepPrefix string) {
	volMu.Lock()
	for p := range volumes {
		if !strings.HasPrefix(p, keepPrefix) {
			delete(volumes, p)
		}
	}
	volMu.Unlock()
}

// DropVolume forgets one volume.
func DropVolume(path string) {
	volMu.Lock()
	delete(volumes, filepath.Clean(path))
	volMu.Unlock()
}

// ForceCloseAll releases the directory lock of every volume without a Close (the process died).
func ForceCloseAll() {
	volMu.Lock()
	for _, v := range volumes {
		v.mu.Lock()
		v.open = false
		v.mu.Unlock()
	}
	volMu.Unlock()
}

// VolumeVersion returns the commit counter of the volume at path (0: none).
func VolumeVersion(path string) uint64 {
	v := getVolume(path, false)
	if v == nil {
		return 0
	}
	v.mu.Lock()
	defer v.mu.Unlock()
	return v.ts
}

// CloneVolumeAt installs at dst a closed volume holding the contents of src as of version ts.
func CloneVolumeAt(src string, ts uint64, dst string) {
	s := getVolume(src, false)
	n := &volume{path: filepath.Clean(dst), data: map[string][]ver{}}
	if s != nil {
		s.mu.Lock()
		for k, vs := range s.data {
			for i := len(vs) - 1; i >= 0; i-- {
				if vs[i].ts <= ts {
					if !vs[i].del {
						n.data[k] = []ver{{ts: 1, val: vs[i].val}}
					}
					break
				}
			}
		}
		s.mu.Unlock()
		n.ts = 1
	}
	volMu.Lock()
	volumes[n.path] = n
	volMu.Unlock()
}

// AliasVolume makes dst name the very same volume as src (full version history kept).
func AliasVolume(src, dst string) {
	v := getVolume(src, false)
	if v == nil {
		return
	}
	volMu.Lock()
	volumes[filepath.Clean(dst)] = v
	volMu.Unlock()
}

// DumpVolume returns the live key/value pairs of a volume.
func DumpVolume(path string) map[string][]byte {
	out := map[string][]byte{}
	v := getVolume(path, false)
	if v == nil {
		return out
	}
	v.mu.Lock()
	defer v.mu.Unlock()
	for k, vs := range v.data {
		if l := vs[len(vs)-1]; !l.del {
			out[k] = l.val
		}
	}
	return out
}

func (v *volume) read(key string, ts uint64) (val []byte, ok bool) {
	vs := v.data[key]
	for i := len(vs) - 1; i >= 0; i-- {
		if vs[i].ts <= ts {
			if vs[i].del {
				return nil, false
			}
			return vs[i].val, true
		}
	}
	return nil, false
}

// ---------------------------------------------------------------- DB

type DB struct {
	real   *rb.DB
	vol    *volume
	closed bool
}

func Open(opt Options) (*DB, error) {
	if UseReal {
		vrt.CountMutation()
		r, err := rb.Open(opt.real)
		if err != nil {
			return nil, err
		}
		return &DB{real: r}, nil
	}
	vrt.Point(vrt.OpKV, nil)
	v := getVolume(opt.Dir, true)
	v.mu.Lock()
	defer v.mu.Unlock()
	if v.open {
		return nil, fmt.Errorf("Cannot acquire directory lock on %q.  Another process is using this Badger database", opt.Dir)
	}
	v.open = true
	return &DB{vol: v}, nil
}

func (db *DB) Close() error {
	if db.real != nil {
		return db.real.Close()
	}
	vrt.Point(vrt.OpKV, nil)
	db.vol.mu.Lock()
	defer db.vol.mu.Unlock()
	if db.closed {
		return nil
	}
	db.closed = true
	db.vol.open = false
	return nil
}

func (db *DB) IsClosed() bool {
	if db.real != nil {
		return db.real.IsClosed()
	}
	return db.closed
}

func (db *DB) RunValueLogGC(discardRatio float64) error {
	if db.real != nil {
		return db.real.RunValueLogGC(discardRatio)
	}
	if discardRatio >= 1.0 || discardRatio <= 0.0 {
		return ErrInvalidRequest
	}
	return ErrNoRewrite
}

func (db *DB) Sync() error {
	if db.real != nil {
		return db.real.Sync()
	}
	return nil
}

func (db *DB) DropAll() error {
	if db.real != nil {
		vrt.CountMutation()
		return db.real.DropAll()
	}
	vrt.Point(vrt.OpKV, nil)
	v := db.vol
	v.mu.Lock()
	v.ts++
	for k, vs := range v.data {
		if !vs[len(vs)-1].del {
			v.data[k] = append(vs, ver{ts: v.ts, del: true})
		}
	}
	ts := v.ts
	v.mu.Unlock()
	vrt.Record(vrt.Mutation{Kind: vrt.MutKV, Path: v.path, Off: int64(ts), Site: "dropall"})
	return nil
}

func (db *DB) NewTransaction(update bool) *Txn {
	if db.real != nil {
		return &Txn{real: db.real.NewTransaction(update), update: update}
	}
	t := &Txn{db: db, update: update}
	db.vol.mu.Lock()
	t.readTs = db.vol.ts
	db.vol.mu.Unlock()
	return t
}

func (db *DB) Update(fn func(txn *Txn) error) error {
	if db.real == nil && db.closed {
		return ErrDBClosed
	}
	txn := db.NewTransaction(true)
	defer txn.Discard()
	if err := fn(txn); err != nil {
		return err
	}
	return txn.Commit()
}

func (db *DB) View(fn func(txn *Txn) error) error {
	if db.real != nil {
		return db.real.View(func(rt *rb.Txn) error { return fn(&Txn{real: rt}) })
	}
	if db.closed {
		return ErrDBClosed
	}
	vrt.Point(vrt.OpKV, nil)
	txn := db.NewTransaction(false)
	defer txn.Discard()
	return fn(txn)
}

// ---------------------------------------------------------------- Txn

// pending: a write of an open transaction. As in the engine, the transaction keeps a *reference* to the
// key and value slices until it commits ("users must not modify or reuse them until the end of the
// transaction"): what is committed is what the slices hold at commit time.
type pending struct {
	key    string // the key at Set time (index of the transaction's own reads)
	keyRef []byte
	val    []byte
	del    bool
}

type Txn struct {
	real *rb.Txn

	db        *DB
	update    bool
	readTs    uint64
	writes    []pending
	index     map[string]int
	reads     map[string]struct{}
	discarded bool
}

type Entry struct {
	Key       []byte
	Value     []byte
	ExpiresAt uint64
	UserMeta  byte
}

func NewEntry(key, value []byte) *Entry { return &Entry{Key: key, Value: value} }
func (e *Entry) WithMeta(m byte) *Entry { e.UserMeta = m; return e }
func (e *Entry) WithTTL(d time.Duration) *Entry {
	e.ExpiresAt = uint64(time.Now().Add(d).Unix())
	return e
}
func (e *Entry) WithDiscard() *Entry { return e }

// FailSetAt, when positive, makes the FailSetAt-th Set/Delete of an update transaction from now on fail
// with ErrInjected (in-memory engine only): an engine-side failure inside a transaction body, such as
// ErrTxnTooBig or an I/O error of the real engine. It disarms itself after firing.
var FailSetAt int

var ErrInjected = errors.New("injected engine failure inside a transaction")

func (t *Txn) modify(key []byte, val []byte, del bool) error {
	if FailSetAt > 0 && t.update && !t.discarded {
		FailSetAt--
		if FailSetAt == 0 {
			return ErrInjected
		}
	}
	switch {
	case t.discarded:
		return ErrDiscardedTxn
	case !t.update:
		return ErrReadOnlyTxn
	case len(key) == 0:
		return ErrEmptyKey
	case bytes.HasPrefix(key, []byte("!badger!")):
		return ErrInvalidKey
	case len(key) > 65000:
		return fmt.Errorf("Key with size %d exceeded 65000 limit", len(key))
	}
	if t.index == nil {
		t.index = map[string]int{}
	}
	p := pending{key: string(key), keyRef: key, val: val, del: del}
	if i, ok := t.index[p.key]; ok {
		t.writes[i] = p
	} else {
		t.index[p.key] = len(t.writes)
		t.writes = append(t.writes, p)
	}
	return nil
}

func (t *Txn) Set(key, val []byte) error {
	if t.real != nil {
		return t.real.Set(key, val)
	}
	return t.modify(key, val, false)
}

func (t *Txn) SetEntry(e *Entry) error {
	if t.real != nil {
		re := rb.NewEntry(e.Key, e.Value).WithMeta(e.UserMeta)
		re.ExpiresAt = e.ExpiresAt
		return t.real.SetEntry(re)
	}
	return t.modify(e.Key, e.Value, false)
}

func (t *Txn) Delete(key []byte) error {
	if t.real != nil {
		return t.real.Delete(key)
	}
	return t.modify(key, nil, true)
}

func (t *Txn) Get(key []byte) (*Item, error) {
	if t.real != nil {
		ri, err := t.real.Get(key)
		if err != nil {
			return nil, err
		}
		return &Item{real: ri}, nil
	}
	if t.discarded {
		return nil, ErrDiscardedTxn
	}
	if len(key) == 0 {
		return nil, ErrEmptyKey
	}
	k := string(key)
	if i, ok := t.index[k]; ok {
		if t.writes[i].del {
			return nil, ErrKeyNotFound
		}
		return &Item{key: []byte(k), val: t.writes[i].val, version: t.readTs}, nil
	}
	if t.update {
		if t.reads == nil {
			t.reads = map[string]struct{}{}
		}
		t.reads[k] = struct{}{}
	}
	v := t.db.vol
	v.mu.Lock()
	val, ok := v.read(k, t.readTs)
	v.mu.Unlock()
	if !ok {
		return nil, ErrKeyNotFound
	}
	return &Item{key: []byte(k), val: val, version: t.readTs}, nil
}

func (t *Txn) Discard() {
	if t.real != nil {
		t.real.Discard()
		return
	}
	t.discarded = true
}

func (t *Txn) ReadTs() uint64 {
	if t.real != nil {
		return t.real.ReadTs()
	}
	return t.readTs
}

// CommitWith commits asynchronously, as Badger does: the transaction's writes are ordered and visible
// to later transactions at once, but they reach stable storage later, on another thread, which then
// calls cb. In the in-memory engine "stable storage" is the persistent-mutation log from which crash
// images are built: the log entry is appended by a separate managed thread.
func (t *Txn) CommitWith(cb func(error)) {
	if t.real != nil {
		if t.update {
			vrt.CountMutation()
		}
		t.real.CommitWith(cb)
		return
	}
	if t.discarded {
		vrt.Go(func() { cb(ErrDiscardedTxn) })
		return
	}
	t.discarded = true
	if len(t.writes) == 0 {
		vrt.Go(func() { cb(nil) })
		return
	}
	ts, err := t.apply()
	if err != nil {
		vrt.Go(func() { cb(err) })
		return
	}
	vrt.GoNamed("badger-async-commit", func() {
		vrt.Point(vrt.OpKV, nil)
		vrt.CountMutation()
		t.record(ts)
		cb(nil)
	})
}

func (t *Txn) Commit() error {
	if t.real != nil {
		if t.update {
			vrt.CountMutation()
		}
		return t.real.Commit()
	}
	if t.discarded {
		return ErrDiscardedTxn
	}
	t.discarded = true
	if len(t.writes) == 0 {
		return nil
	}
	vrt.Point(vrt.OpKV, nil)
	vrt.CountMutation()
	ts, err := t.apply()
	if err != nil {
		return err
	}
	t.record(ts)
	return nil
}

// apply makes the writes visible (conflict check, new version); record logs them as durable.
func (t *Txn) apply() (uint64, error) {
	v := t.db.vol
	v.mu.Lock()
	if t.db.closed {
		v.mu.Unlock()
		return 0, ErrDBClosed
	}
	for k := range t.reads {
		if vs := v.data[k]; len(vs) > 0 && vs[len(vs)-1].ts > t.readTs {
			v.mu.Unlock()
			return 0, ErrConflict
		}
	}
	v.ts++
	for _, w := range t.writes {
		k := w.key
		if w.keyRef != nil {
			k = string(w.keyRef)
		}
		v.data[k] = append(v.data[k], ver{ts: v.ts, val: append([]byte(nil), w.val...), del: w.del})
	}
	ts := v.ts
	v.mu.Unlock()
	return ts, nil
}

func (t *Txn) record(ts uint64) {
	if vrt.Rec == nil {
		return
	}
	site := ""
	for i, w := range t.writes {
		if i > 0 {
			site += ","
		}
		if w.del {
			site += "del:"
		} else {
			site += "set:"
		}
		site += prefixOf(w.key)
	}
	vrt.Record(vrt.Mutation{Kind: vrt.MutKV, Path: t.db.vol.path, Off: int64(ts), Site: site})
}

func prefixOf(k string) string {
	for i := 0; i < len(k); i++ {
		if k[i] == '/' {
			return k[:i]
		}
	}
	return k
}

func (t *Txn) NewIterator(opt IteratorOptions) *Iterator {
	if t.real != nil {
		return &Iterator{real: t.real.NewIterator(opt.toReal())}
	}
	it := &Iterator{opt: opt}
	seen := map[string]bool{}
	v := t.db.vol
	v.mu.Lock()
	for k := range v.data {
		if val, ok := v.read(k, t.readTs); ok {
			if i, p := t.index[k]; p {
				_ = i
				continue
			}
			seen[k] = true
			it.items = append(it.items, &Item{key: []byte(k), val: val, version: t.readTs})
		}
	}
	v.mu.Unlock()
	for _, w := range t.writes {
		if !w.del {
			it.items = append(it.items, &Item{key: []byte(w.key), val: w.val, version: t.readTs})
		}
	}
	if len(opt.Prefix) > 0 {
		k := 0
		for _, im := range it.items {
			if bytes.HasPrefix(im.key, opt.Prefix) {
				it.items[k] = im
				k++
			}
		}
		it.items = it.items[:k]
	}
	sort.Slice(it.items, func(a, b int) bool {
		c := bytes.Compare(it.items[a].key, it.items[b].key)
		if opt.Reverse {
			return c > 0
		}
		return c < 0
	})
	return it
}

// ---------------------------------------------------------------- Item / Iterator

type Item struct {
	real    *rb.Item
	key     []byte
	val     []byte
	version uint64
}

func (i *Item) Key() []byte {
	if i.real != nil {
		return i.real.Key()
	}
	return i.key
}
func (i *Item) KeyCopy(dst []byte) []byte {
	if i.real != nil {
		return i.real.KeyCopy(dst)
	}
	return append(dst[:0], i.key...)
}
func (i *Item) Value(fn func(val []byte) error) error {
	if i.real != nil {
		return i.real.Value(fn)
	}
	if fn == nil {
		return nil
	}
	return fn(append([]byte(nil), i.val...))
}
func (i *Item) ValueCopy(dst []byte) ([]byte, error) {
	if i.real != nil {
		return i.real.ValueCopy(dst)
	}
	return append(dst[:0], i.val...), nil
}
func (i *Item) ValueSize() int64 {
	if i.real != nil {
		return i.real.ValueSize()
	}
	return int64(len(i.val))
}
func (i *Item) KeySize() int64 { return int64(len(i.Key())) }
func (i *Item) Version() uint64 {
	if i.real != nil {
		return i.real.Version()
	}
	return i.version
}
func (i *Item) IsDeletedOrExpired() bool {
	if i.real != nil {
		return i.real.IsDeletedOrExpired()
	}
	return false
}
func (i *Item) UserMeta() byte {
	if i.real != nil {
		return i.real.UserMeta()
	}
	return 0
}
func (i *Item) ExpiresAt() uint64 {
	if i.real != nil {
		return i.real.ExpiresAt()
	}
	return 0
}
func (i *Item) String() string { return fmt.Sprintf("key=%q, version=%d", i.Key(), i.Version()) }

type Iterator struct {
	real  *rb.Iterator
	opt   IteratorOptions
	items []*Item
	pos   int
}

func (it *Iterator) Item() *Item {
	if it.real != nil {
		return &Item{real: it.real.Item()}
	}
	if it.pos < len(it.items) {
		return it.items[it.pos]
	}
	return nil
}
func (it *Iterator) Valid() bool {
	if it.real != nil {
		return it.real.Valid()
	}
	return it.pos < len(it.items)
}
func (it *Iterator) ValidForPrefix(prefix []byte) bool {
	if it.real != nil {
		return it.real.ValidForPrefix(prefix)
	}
	return it.Valid() && bytes.HasPrefix(it.items[it.pos].key, prefix)
}
func (it *Iterator) Next() {
	if it.real != nil {
		it.real.Next()
		return
	}
	it.pos++
}
func (it *Iterator) Rewind() {
	if it.real != nil {
		it.real.Rewind()
		return
	}
	it.pos = 0
}
func (it *Iterator) Seek(key []byte) {
	if it.real != nil {
		it.real.Seek(key)
		return
	}
	if len(key) == 0 {
		it.pos = 0
		return
	}
	it.pos = sort.Search(len(it.items), func(i int) bool {
		c := bytes.Compare(it.items[i].key, key)
		if it.opt.Reverse {
			return c <= 0
		}
		return c >= 0
	})
}
func (it *Iterator) Close() {
	if it.real != nil {
		it.real.Close()
	}
}

var _ = errors.New
