#!/bin/bash
# Runs the repository's test suite (guard off — there are no source hooks) and compares with BASELINE.json's stable_pass list.
export GOFLAGS=-mod=mod GOPROXY=off GOSUMDB=off GOTOOLCHAIN=local
cd ${1:-/repo} && go test -mod=mod -json -vet=off -count=1 -timeout 25m ./... 2>/dev/null > /tmp/verif-baseline-$$.json
python3 - <<'PY'
import json
base=json.load(open('/root/.vp/BASELINE.json'))
want=set(base['stable_pass'])
got=set()
for l in open("/tmp/verif-baseline-%s.json" % __import__("os").getppid()):
    try: e=json.loads(l)
    except: continue
    if e.get('Action')=='pass' and e.get('Test'):
        got.add(e['Package']+'::'+e['Test'])
missing=sorted(want-got)
print('baseline stable_pass:',len(want),'passing now:',len(want&got),'missing:',len(missing))
for m in missing[:20]: print('  MISSING',m)
PY
rm -f /tmp/verif-baseline-$$.json
