enum_note = "Pure input enumeration on the real functions in a single thread; no scheduler involved."
CHECKS = {
 'C17': dict(tech='bounded exhaustive enumeration of operation sequences from seeded non-initial states on the real stack with a structural oracle over the storage roots',
   text='From seeded states with limit-2, limit-1 and limit entries in the active directory, for 1 and 2 roots and limits exercising the clamp: every history of depth 4 (quick) / 5 (thorough) over Set-new in two shuffle orders, overwrite, delete, GC, reopen and root-restricted probes; after every step every file sits directly in <root>/<uuid>/ and no directory exceeds the limit; at the end every root accepts a write when it alone has space and every directory with room receives a write for some shuffle order.',
   note='Operations one at a time (the statement\'s restriction); free space comes from the disk shim table, shuffle orders are dictated by the harness; single client under the controlled scheduler, in-memory Badger engine.', ref='C17'),
 'C18': dict(tech='bounded exhaustive enumeration of version lists, probes, horizons and list operation sequences on the real model/core structures against a linear-scan reference',
   text='All 4096 subsets of a 12-element sequence domain x all probe points x all horizons (pure lookups and the production collect pattern), all operation sequences of depth 8 (quick) / 10 (thorough) over push, pop-front, pop-back, collect with every lookup compared after every step, with and without the search array, plus deterministic long lists.',
   note=enum_note + " The 'random long lists' part of the quantifier is replaced by deterministic long lists (sampling is a different family).", ref='C18'),
 'C19': dict(tech='bounded exhaustive enumeration of record values and byte strings through the real repository codec against an independent codec of the documented layout',
   text='Encode through repository/file.Repo.Set and decode through Repo.GetAll for all boundary keys (all byte strings up to length 3 over four symbols, lengths to 65535), boundary sequences (every single bit, every ff-prefix) and all pairs of six boundary UUIDs; decoding of all class-patterned byte strings of length 0..41, every truncation of a valid record and a golden vector: exact layout, exact round trip, no panic, short input rejected.',
   note=enum_note, ref='C19'),
 'C20': dict(tech='exhaustive enumeration of the configuration lattice (8 states of 7 settings) through the real ParseConfig against a reference precedence function',
   text='Every pair of settings in all 64 state combinations with the others at three base states (quick) / the full product of 8^7 = 2,097,152 combinations (thorough), each a real ParseConfig on a generated YAML file and environment, called twice with the first result mutated in between; Storage.Valid on the boundary set.',
   note=enum_note + ' Environment variables are set in the worker process itself.', ref='C20'),
}
