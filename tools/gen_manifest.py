#!/usr/bin/env python3
# Generates /verif/MANIFEST.json from the table below (kept in one place so that the list of claimed
# properties, techniques and not_applicable entries stay consistent).
import json, subprocess

FIX_COMMITS = subprocess.run(['git','-C','/repo','log','--format=%h %s','42f3f3c..HEAD'],capture_output=True,text=True).stdout.strip().split('\n')

seq_note = ("Single client thread on the assembled real stack under the controlled scheduler (two fixed background policies); "
            "in-memory Badger engine and virtual clock, bound to the real engine by the conformance replays (DESIGN.md §2.9).")
conc_note = ("Interleavings at visible operations (locks, atomics, cond/wait-group/channel operations, timers, KV transactions, file-system calls); "
             "accesses between them are assumed race-free, which is C15's claim; in-memory Badger engine, virtual clock.")

CHECKS = {
 'C01': dict(tech='bounded exhaustive enumeration of operation sequences on the real stack against a map reference model (explicit-state, implementation-level)',
   text='All autocommit histories to depth 4 (quick) / 6 (thorough) over Set/SetReader/Create/Delete on 3 keys plus the empty key, every read (Get, GetReader, GetKeys, never-written key) compared with a map model after every step; all ten boundary content lengths, Create splits, read-size patterns of the source reader (also sources returning their last bytes with io.EOF) and a paced Create on the last write of all histories of depth <= 3; the length/split alphabet also through the gRPC client (depth 1 / 3); 41 unusual valid-UTF-8 keys (separators, control characters, NUL, record prefixes, long keys) in histories with reopenings; a created file kept open across other operations and collection passes (the write takes effect at Close); the same histories to depth 3 / 4 replayed on the real Badger engine.', note=seq_note, ref='C01'),
 'C02': dict(tech='bounded exhaustive enumeration of sequential transaction interleavings on the real stack against the isolation reference model',
   text='All sequential interleavings to the stated depth of autocommit writes, Begin at the four levels, writes, Commit, Rollback in 2-3 transaction slots and GC at any position (one plan with SetReader and Create inside transactions); after every step every open transaction and the autocommit handle read every key and the key list, compared with the model of C02.', note=seq_note, ref='C02'),
 'C03': dict(tech='bounded exhaustive enumeration of commit-centred histories on the real stack against the reference model',
   text='All interleavings to the stated depth of transactions with overlapping write sets (several writes per key) and autocommit writes; the error class of every Commit/Rollback and the autocommit view after every step must equal the model: all-or-nothing publication, ErrTxSerialization iff snapshot level and a written key was committed after begin.', note=seq_note, ref='C03'),
 'C05': dict(tech='exhaustive enumeration of the configuration product (process lifetimes x open orders x write patterns) on the real stack against per-database map models',
   text='The full product of 2-3 process lifetimes, five open orders of two databases in one process, write patterns, abandoned transactions and mid-life reopen; every database read after every open and write and in a final process; plus every sequential interleaving of transactions and autocommit writes to depth 5 (6) followed by Close, a new process, Open and a full read, twice; and five concurrent client programs at 2 (3) deviations whose final reads must be the same before Close and after a new process has opened the database.', note=seq_note + ' A process boundary is emulated by a clean Close plus re-initialisation of all package-level variables.', ref='C05'),
 'C06': dict(tech='stateless model checking of the implementation: deviation-bounded exhaustive schedule exploration with a linearizability oracle',
   text='Every schedule with at most 2 (quick) / 3 (thorough, capped at 4 M executions per program) deviations of eleven client programs (autocommit, RU/RC transactions, GC actor, shared keys) over inline.Open..Close, the same programs with the writer preference of sync.RWMutex modelled at one deviation less, three programs with a scheduling point after every Unlock as well (release points), and every pair of client threads over an 11-item alphabet (56 generated programs at 1 deviation quick; two initial states, GC actor, 2 deviations and two-against-one items thorough) and every triple over a 5-item alphabet (34 programs, 1 / 2 deviations); each recorded call/return history must be linearizable w.r.t. the sequential model; no deadlock, panic or leaked thread.', note=conc_note, ref='C06'),
 'C07': dict(tech='stateless model checking of the implementation: deviation-bounded exhaustive schedule exploration of concurrent commits with a linearizability oracle',
   text='Every schedule with at most 2 (quick) / 3 (thorough) deviations of six programs (one from a store that has seen transactions end) in which snapshot transactions with intersecting write sets (and an autocommit / RC writer) commit concurrently, plus all 36 pairs of committing clients generated from an 8-item alphabet (RR/SER writers with intersecting and disjoint write sets, RC, autocommit and rolled-back writers) at 2 / 3 deviations; the history must be linearizable w.r.t. the model, in which the second committer fails and its writes vanish.', note=conc_note, ref='C07'),
 'C08': dict(tech='stateless model checking of the implementation: deviation-bounded exhaustive schedule exploration of snapshot readers with a linearizability oracle',
   text='Every schedule with at most 2 (quick) / 3 (thorough, capped) deviations of seven programs with a snapshot reader against multi-key committers, autocommit writers, other Begins and GC, plus 30 generated pairs of snapshot readers and writers on two keys at 2 / 3 deviations; linearizability w.r.t. the model with Begin as snapshot point gives atomic visibility, stable re-reads and no lost version.', note=conc_note, ref='C08'),
 'C09': dict(tech='bounded exhaustive enumeration: every GC-free history re-run with the collector at every subset of positions, on the real stack against the model (differential)',
   text='Every GC-free history to the stated depth with the collector inserted at every subset of positions (size <= 2 quick, all thorough); every read of every actor after every step equals the model, for which GC is the identity, and delivers its bytes; plus 1..12 (thorough 40) snapshot transactions of different ages ended in four orders with the collector and a further overwrite after every end.', note=seq_note + ' The collector runs through the production path (virtual GC period, Sched, Send, worker, DeleteOld).', ref='C09'),
 'C12': dict(tech='stateless model checking of the implementation: all interleavings of writer and storing side under a controlled scheduler',
   text='Every interleaving (no bound) of the real async.readWriter writer and reader for every split of a short content into writes including empty ones, three reader buffer sizes, 32 KiB boundary splits and storing-side failures, large writes (64 KiB, 1 MiB thorough) through a writer that re-uses and overwrites its buffer, plus five programs through inline.Open + Create with uneven and empty writes and a failing store (empty key) at 2 (quick) / 3 (thorough) deviations: Close returns, nil means exact concatenation, failure is reported with its class.', note='Interleavings at visible operations; the storing side is the io.Copy loop content.Store runs; inline Create end-to-end and the gRPC stream are covered sequentially by C01/C11.', ref='C12'),
 'C13': dict(tech='bounded exhaustive enumeration of histories with operations through finished and unknown transaction handles on the real stack against the reference model',
   text='All histories to the stated depth in which every operation is also issued through handles of committed, failed and rolled-back transactions and through a never-issued transaction id (Commit and Rollback also naming the all-zero id and no id, issued raw), with RU and autocommit observers reading after every step and a restart at the end.', note=seq_note, ref='C13'),
 'C14': dict(tech='bounded exhaustive enumeration of fault-free histories with exact quiescence and a walk of the storage roots',
   text='All fault-free histories to the stated depth; epilogue: end open transactions, exact quiescence, one GC pass, quiescence; the roots must hold exactly one content file per readable key with its bytes, directly inside <root>/<uuid>/; variant with Close while work is pending, new process, reopen; plus one transaction issuing n = 1..24 (thorough 64) writes in six shapes, and sparse large sizes up to 1025 (2049), under the same disk oracle.', note=seq_note, ref='C14'),
 'C15': dict(tech='stateless model checking of the implementation with the Go race detector as per-execution monitor (scheduler hand-offs hidden, shim primitives annotated with the real happens-before edges)',
   text='Every schedule with at most 1 (quick) / 2 (thorough) deviations of 32 programs (the C06/C07/C08 programs, first-use, two-root and seeded-state programs, worker-pool and readWriter programs), each execution monitored by the race detector, and a release-points pass (a scheduling point after every Unlock) over three transaction programs and the C07 programs; bulk programs (a transaction of 1001 / 1002 writes rolled back / committed with two pool workers) and the round-robin default schedule of every client program at bound 0; any report in fs_db code is a violation.', note='Only memory touched by fs_db code and the instrumented glebziz/containers in explored executions; Badger is the in-memory shim, gRPC handlers are not run under the scheduler; sequentially consistent executions only.', ref='C15'),
 'C16': dict(tech='stateless model checking of the implementation: deviation-bounded exhaustive schedule exploration of the real worker pool',
   text='All schedules with at most 2 (quick) / 3 (thorough) deviations of 15 closed programs over wpool.New/Run/Send/Sched/Stop with gated jobs, two-worker variants and a writer-preference pass (one without bound, one - a Stop racing a deferred Send followed by a second life of the pool - with early timers at no cost): accepted jobs run exactly once at quiescence, Send returns while no worker is free, Stop waits for in-flight jobs, nothing starts after Stop, no panic, deadlock or leaked thread.', note='Virtual time (Send timer fires when nothing else can run, or early as a deviation); interleavings at visible operations; race freedom between them is C15.', ref='C16'),
}

PENDING = {
 'C04': 'crash-point enumeration under construction in this session',
 'C10': 'fault enumeration under construction in this session',
 'C11': 'gRPC hybrid tier under construction in this session',
 'C17': 'directory-bound enumeration under construction in this session',
 'C18': 'list/lookup enumeration under construction in this session',
 'C19': 'codec enumeration under construction in this session',
 'C20': 'configuration lattice enumeration under construction in this session',
}

import sys
extra = {}
try:
    exec(open('/verif/tools/manifest_extra.py').read(), extra)
    CHECKS.update(extra.get('CHECKS', {}))
    for k in extra.get('CHECKS', {}): PENDING.pop(k, None)
except FileNotFoundError:
    pass

checks = []
for pid in sorted(CHECKS):
    c = CHECKS[pid]
    checks.append({
      'property_id': pid,
      'quick_cmd': f'/verif/run {pid} quick',
      'thorough_cmd': f'/verif/run {pid} thorough',
      'evidence_file': f'/verif/evidence/{pid}.json',
      'replay_cmd_template': '/verif/run replay {path}',
      'engine': c.get('engine', 'vrt'),
      'technique': c['tech'],
      'level_claimed': {'category': c.get('cat', 'model_checking'), 'text': c['text'], 'design_ref': 'DESIGN.md §3 ' + c['ref']},
      'level_note': c['note'],
    })

m = {
 'version': 1,
 'setup_cmd': '/verif/run setup',
 'hooks': {
   'guard': 'verif',
   'enable': "no source hooks: /verif/run copies /repo's current working tree to a scratch directory and instruments the copy at check time (tools/verifgen: import rewriting of sync, sync/atomic, time, context, math/rand/v2, os, badger, gopsutil/disk to shim packages; go/chan/select/close rewritten into the controlled runtime; deterministic map ranging). The guard name is reserved and unused; /repo carries only fix: commits.",
   'baseline_off_cmd': 'cd /repo && go test -mod=mod -vet=off -count=1 ./...',
   'source_commits': [],
   'add_only': True,
 },
 'engines': [
   {'name': 'vrt', 'path': '/verif/vrt', 'serves_properties': sorted(CHECKS), 'kind_free_text': 'hand-written cooperative scheduler + stateless deviation-bounded DFS explorer over the real code; shims for sync, sync/atomic, time, context, rand, os, badger, disk; sequential history walker, enumeration driver and linearizability checker in /verif/harness'},
   {'name': 'verifgen', 'path': '/verif/tools/verifgen', 'serves_properties': sorted(CHECKS), 'kind_free_text': 'check-time instrumentation of a copy of the working tree'},
 ],
 'checks': checks,
 'not_applicable': [{'property_id': k, 'reason': v} for k, v in sorted(PENDING.items())],
 'notes': 'See DESIGN.md. fix: commits in /repo: ' + '; '.join(FIX_COMMITS),
}
json.dump(m, open('/verif/MANIFEST.json','w'), indent=1)
print('wrote MANIFEST.json with', len(checks), 'checks;', len(PENDING), 'pending')
