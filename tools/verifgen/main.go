// verifgen instruments a copy of the fs_db working tree for the verification runtime.
//
//	verifgen -repo /repo -verif /verif -out <scratch dir>
//
// It copies the non-test Go files of the working tree (and of the glebziz/containers dependency),
// rewrites imports of sync, sync/atomic, time, context, math/rand/v2, os, badger and gopsutil/disk to
// the same-named shim packages under verifrt/, rewrites go statements, channel operations, select
// and close into calls of verifrt/vrt, makes ranging over maps deterministic (sorted, optionally an
// explorer choice), generates per-package VerifResetGlobals, and copies the runtime and the harness
// into the module.
package main

import (
	"bytes"
	"flag"
	"fmt"
	"go/ast"
	"go/build/constraint"
	"go/format"
	"go/parser"
	"go/token"
	"os"
	"os/exec"
	"path/filepath"
	"sort"
	"strconv"
	"strings"
)

const modPath = "github.com/glebziz/fs_db"
const rtPath = modPath + "/verifrt/vrt"

var importMap = map[string]string{
	"sync":                               modPath + "/verifrt/sync",
	"sync/atomic":                        modPath + "/verifrt/atomic",
	"time":                               modPath + "/verifrt/time",
	"context":                            modPath + "/verifrt/context",
	"math/rand/v2":                       modPath + "/verifrt/rand",
	"os":                                 modPath + "/verifrt/os",
	"github.com/dgraph-io/badger/v3":     modPath + "/verifrt/badger",
	"github.com/shirou/gopsutil/disk":    modPath + "/verifrt/disk",
	"github.com/shirou/gopsutil/v3/disk": modPath + "/verifrt/disk",
}

var (
	repo   = flag.String("repo", "/repo", "working tree")
	verif  = flag.String("verif", "/verif", "verification directory")
	outDir = flag.String("out", "", "scratch directory (created)")
	noType = flag.Bool("notypes", false, "skip the type-directed rewrites")
)

func die(format string, a ...any) {
	fmt.Fprintf(os.Stderr, "verifgen: "+format+"\n", a...)
	os.Exit(2)
}

func main() {
	flag.Parse()
	if *outDir == "" {
		die("-out required")
	}
	out := *outDir
	if err := os.MkdirAll(out, 0o755); err != nil {
		die("%v", err)
	}

	// 1. copy the working tree
	var rewriteFiles []string // relative paths under out to rewrite
	err := filepath.Walk(*repo, func(p string, info os.FileInfo, err error) error {
		if err != nil {
			return err
		}
		rel, _ := filepath.Rel(*repo, p)
		if info.IsDir() {
			switch {
			case rel == ".":
				return nil
			case strings.HasPrefix(info.Name(), "."), info.Name() == "testdata", info.Name() == "mocks":
				return filepath.SkipDir
			case rel == "cmd", rel == "example", rel == "testStorage", rel == "test_db", rel == "verifrt", rel == "verifh", rel == "third_party":
				return filepath.SkipDir
			}
			return nil
		}
		if rel == "go.mod" || rel == "go.sum" {
			return copyFile(p, filepath.Join(out, rel))
		}
		if !strings.HasSuffix(p, ".go") || strings.HasSuffix(p, "_test.go") {
			return nil
		}
		if err := copyFile(p, filepath.Join(out, rel)); err != nil {
			return err
		}
		if !strings.HasPrefix(rel, "internal/proto/") {
			rewriteFiles = append(rewriteFiles, rel)
		}
		return nil
	})
	if err != nil {
		die("copy tree: %v", err)
	}

	// 2. the containers dependency (holds the transaction registry's lock)
	ver := requiredVersion(filepath.Join(out, "go.mod"), "github.com/glebziz/containers")
	if ver != "" {
		src := filepath.Join(goEnv("GOMODCACHE"), "github.com/glebziz/containers@"+ver)
		dst := filepath.Join(out, "third_party", "containers")
		err := filepath.Walk(src, func(p string, info os.FileInfo, err error) error {
			if err != nil {
				return err
			}
			rel, _ := filepath.Rel(src, p)
			if info.IsDir() {
				return nil
			}
			if rel == "go.mod" {
				return copyFile(p, filepath.Join(dst, rel))
			}
			if !strings.HasSuffix(p, ".go") || strings.HasSuffix(p, "_test.go") {
				return nil
			}
			if err := copyFile(p, filepath.Join(dst, rel)); err != nil {
				return err
			}
			rewriteFiles = append(rewriteFiles, filepath.Join("third_party", "containers", rel))
			return nil
		})
		if err != nil {
			die("copy containers: %v", err)
		}
		// the copy lives inside the main module directory tree but is its own module
		gm, _ := os.ReadFile(filepath.Join(out, "go.mod"))
		gm = append(gm, []byte("\nreplace github.com/glebziz/containers => ./third_party/containers\n")...)
		if err := os.WriteFile(filepath.Join(out, "go.mod"), gm, 0o644); err != nil {
			die("%v", err)
		}
	}

	// 3. runtime and harness
	if err := copyTree(filepath.Join(*verif, "vrt"), filepath.Join(out, "verifrt")); err != nil {
		die("copy vrt: %v", err)
	}
	if err := copyTree(filepath.Join(*verif, "harness"), filepath.Join(out, "verifh")); err != nil {
		die("copy harness: %v", err)
	}

	// 4. type information (optional): which range statements iterate over maps
	var ti *typeInfo
	if !*noType {
		ti = loadTypes(out, rewriteFiles)
	}

	// 5. rewrite
	pkgResets := map[string][]string{} // dir -> reset func names
	pkgNames := map[string]string{}
	sort.Strings(rewriteFiles)
	for _, rel := range rewriteFiles {
		fn, pkg, err := processFile(filepath.Join(out, rel), rel, ti)
		if err != nil {
			die("rewrite %s: %v", rel, err)
		}
		dir := filepath.Dir(rel)
		if pkg != "" {
			pkgNames[dir] = pkg
		}
		if fn != "" {
			pkgResets[dir] = append(pkgResets[dir], fn)
		}
	}
	for dir, fns := range pkgResets {
		var b bytes.Buffer
		fmt.Fprintf(&b, "// Code generated by verifgen. DO NOT EDIT.\n\npackage %s\n\nimport vrt %q\n\n", pkgNames[dir], rtPath)
		fmt.Fprintf(&b, "// VerifResetGlobals re-assigns the package-level variables their declared initial values\n// (emulation of a new process).\nfunc VerifResetGlobals() {\n")
		for _, f := range fns {
			fmt.Fprintf(&b, "\t%s()\n", f)
		}
		fmt.Fprintf(&b, "}\n\nfunc init() { vrt.RegisterReset(%q, VerifResetGlobals) }\n", dir)
		if err := os.WriteFile(filepath.Join(out, dir, "zz_verif_globals.go"), b.Bytes(), 0o644); err != nil {
			die("%v", err)
		}
	}
}

func goEnv(k string) string {
	o, err := exec.Command("go", "env", k).Output()
	if err != nil {
		die("go env %s: %v", k, err)
	}
	return strings.TrimSpace(string(o))
}

func requiredVersion(gomod, mod string) string {
	b, err := os.ReadFile(gomod)
	if err != nil {
		die("%v", err)
	}
	for _, ln := range strings.Split(string(b), "\n") {
		f := strings.Fields(ln)
		for i := 0; i+1 < len(f); i++ {
			if f[i] == mod && strings.HasPrefix(f[i+1], "v") {
				return f[i+1]
			}
		}
	}
	return ""
}

func copyFile(src, dst string) error {
	b, err := os.ReadFile(src)
	if err != nil {
		return err
	}
	if err := os.MkdirAll(filepath.Dir(dst), 0o755); err != nil {
		return err
	}
	return os.WriteFile(dst, b, 0o644)
}

func copyTree(src, dst string) error {
	return filepath.Walk(src, func(p string, info os.FileInfo, err error) error {
		if err != nil {
			return err
		}
		if info.IsDir() {
			return nil
		}
		rel, _ := filepath.Rel(src, p)
		return copyFile(p, filepath.Join(dst, rel))
	})
}

// ------------------------------------------------------------------------------------------------

type rewriter struct {
	fset    *token.FileSet
	n       int
	usedVrt bool
	rel     string
	ti      *typeInfo
}

func (r *rewriter) tmp(p string) string { r.n++; return fmt.Sprintf("__vg%s%d", p, r.n) }

func sel(x, s string) ast.Expr { return &ast.SelectorExpr{X: ast.NewIdent(x), Sel: ast.NewIdent(s)} }
func call(f ast.Expr, args ...ast.Expr) *ast.CallExpr {
	return &ast.CallExpr{Fun: f, Args: args}
}

func (r *rewriter) expr(e ast.Expr) ast.Expr {
	if e == nil {
		return nil
	}
	switch x := e.(type) {
	case *ast.UnaryExpr:
		x.X = r.expr(x.X)
		if x.Op == token.ARROW {
			r.usedVrt = true
			return call(sel("vrt", "Recv"), x.X)
		}
		return x
	case *ast.BinaryExpr:
		x.X, x.Y = r.expr(x.X), r.expr(x.Y)
	case *ast.CallExpr:
		x.Fun = r.expr(x.Fun)
		for i := range x.Args {
			x.Args[i] = r.expr(x.Args[i])
		}
		if id, ok := x.Fun.(*ast.Ident); ok && id.Name == "close" && len(x.Args) == 1 && id.Obj == nil {
			r.usedVrt = true
			x.Fun = sel("vrt", "Close")
		}
	case *ast.ParenExpr:
		x.X = r.expr(x.X)
	case *ast.SelectorExpr:
		x.X = r.expr(x.X)
	case *ast.IndexExpr:
		x.X, x.Index = r.expr(x.X), r.expr(x.Index)
	case *ast.IndexListExpr:
		x.X = r.expr(x.X)
	case *ast.SliceExpr:
		x.X, x.Low, x.High, x.Max = r.expr(x.X), r.expr(x.Low), r.expr(x.High), r.expr(x.Max)
	case *ast.StarExpr:
		x.X = r.expr(x.X)
	case *ast.TypeAssertExpr:
		x.X = r.expr(x.X)
	case *ast.KeyValueExpr:
		x.Key, x.Value = r.expr(x.Key), r.expr(x.Value)
	case *ast.CompositeLit:
		for i := range x.Elts {
			x.Elts[i] = r.expr(x.Elts[i])
		}
	case *ast.FuncLit:
		r.block(x.Body)
	}
	return e
}

func (r *rewriter) block(b *ast.BlockStmt) {
	if b == nil {
		return
	}
	b.List = r.stmts(b.List)
}

func (r *rewriter) stmts(list []ast.Stmt) []ast.Stmt {
	out := make([]ast.Stmt, 0, len(list))
	for _, s := range list {
		out = append(out, r.stmt(s))
	}
	return out
}

func (r *rewriter) stmt(s ast.Stmt) ast.Stmt {
	switch x := s.(type) {
	case nil:
		return nil
	case *ast.GoStmt:
		return r.goStmt(x)
	case *ast.SendStmt:
		r.usedVrt = true
		return &ast.ExprStmt{X: call(sel("vrt", "Send"), r.expr(x.Chan), r.expr(x.Value))}
	case *ast.SelectStmt:
		return r.selectStmt(x, nil)
	case *ast.LabeledStmt:
		if ss, ok := x.Stmt.(*ast.SelectStmt); ok {
			return r.selectStmt(ss, x.Label)
		}
		x.Stmt = r.stmt(x.Stmt)
	case *ast.ExprStmt:
		x.X = r.expr(x.X)
	case *ast.AssignStmt:
		if len(x.Lhs) == 2 && len(x.Rhs) == 1 {
			if u, ok := x.Rhs[0].(*ast.UnaryExpr); ok && u.Op == token.ARROW {
				r.usedVrt = true
				x.Rhs[0] = call(sel("vrt", "Recv2"), r.expr(u.X))
				return x
			}
		}
		for i := range x.Lhs {
			x.Lhs[i] = r.expr(x.Lhs[i])
		}
		for i := range x.Rhs {
			x.Rhs[i] = r.expr(x.Rhs[i])
		}
	case *ast.DeclStmt:
		if gd, ok := x.Decl.(*ast.GenDecl); ok {
			for _, sp := range gd.Specs {
				if vs, ok := sp.(*ast.ValueSpec); ok {
					if len(vs.Names) == 2 && len(vs.Values) == 1 {
						if u, ok := vs.Values[0].(*ast.UnaryExpr); ok && u.Op == token.ARROW {
							r.usedVrt = true
							vs.Values[0] = call(sel("vrt", "Recv2"), r.expr(u.X))
							continue
						}
					}
					for i := range vs.Values {
						vs.Values[i] = r.expr(vs.Values[i])
					}
				}
			}
		}
	case *ast.ReturnStmt:
		for i := range x.Results {
			x.Results[i] = r.expr(x.Results[i])
		}
	case *ast.IfStmt:
		x.Init = r.stmt(x.Init)
		x.Cond = r.expr(x.Cond)
		r.block(x.Body)
		x.Else = r.stmt(x.Else)
	case *ast.ForStmt:
		x.Init = r.stmt(x.Init)
		x.Cond = r.expr(x.Cond)
		x.Post = r.stmt(x.Post)
		r.block(x.Body)
	case *ast.RangeStmt:
		kind := r.ti.rangeKind(r.rel, r.fset.Position(x.Pos()))
		x.X = r.expr(x.X)
		switch kind {
		case rangeMap:
			r.usedVrt = true
			x.X = call(sel("vrt", "RangeMap"), x.X)
		case rangeChan:
			r.usedVrt = true
			x.X = call(sel("vrt", "RangeChan"), x.X)
		}
		r.block(x.Body)
	case *ast.BlockStmt:
		r.block(x)
	case *ast.SwitchStmt:
		x.Init = r.stmt(x.Init)
		x.Tag = r.expr(x.Tag)
		r.block(x.Body)
	case *ast.TypeSwitchStmt:
		x.Init = r.stmt(x.Init)
		x.Assign = r.stmt(x.Assign)
		r.block(x.Body)
	case *ast.CaseClause:
		for i := range x.List {
			x.List[i] = r.expr(x.List[i])
		}
		x.Body = r.stmts(x.Body)
	case *ast.CommClause:
		x.Body = r.stmts(x.Body)
	case *ast.DeferStmt:
		x.Call = r.expr(x.Call).(*ast.CallExpr)
	case *ast.IncDecStmt:
		x.X = r.expr(x.X)
	}
	return s
}

func (r *rewriter) goStmt(g *ast.GoStmt) ast.Stmt {
	r.usedVrt = true
	c := g.Call
	if fl, ok := c.Fun.(*ast.FuncLit); ok && len(c.Args) == 0 && (fl.Type.Params == nil || len(fl.Type.Params.List) == 0) {
		r.block(fl.Body)
		return &ast.ExprStmt{X: call(sel("vrt", "Go"), fl)}
	}
	// general form: function value and arguments are evaluated now, the call runs in the new thread
	var pre []ast.Stmt
	fn := r.expr(c.Fun)
	var fexpr ast.Expr = fn
	switch f := fn.(type) {
	case *ast.FuncLit:
		fname := r.tmp("f")
		pre = append(pre, &ast.AssignStmt{Lhs: []ast.Expr{ast.NewIdent(fname)}, Tok: token.DEFINE, Rhs: []ast.Expr{f}})
		fexpr = ast.NewIdent(fname)
	case *ast.SelectorExpr:
		// method value or package function: bind now
		fname := r.tmp("f")
		pre = append(pre, &ast.AssignStmt{Lhs: []ast.Expr{ast.NewIdent(fname)}, Tok: token.DEFINE, Rhs: []ast.Expr{f}})
		fexpr = ast.NewIdent(fname)
	case *ast.Ident:
		// plain function name (or variable): evaluate now too
		fname := r.tmp("f")
		pre = append(pre, &ast.AssignStmt{Lhs: []ast.Expr{ast.NewIdent(fname)}, Tok: token.DEFINE, Rhs: []ast.Expr{f}})
		fexpr = ast.NewIdent(fname)
	default:
		fname := r.tmp("f")
		pre = append(pre, &ast.AssignStmt{Lhs: []ast.Expr{ast.NewIdent(fname)}, Tok: token.DEFINE, Rhs: []ast.Expr{fn}})
		fexpr = ast.NewIdent(fname)
	}
	var args []ast.Expr
	for _, a := range c.Args {
		a = r.expr(a)
		if _, isLit := a.(*ast.BasicLit); isLit {
			args = append(args, a)
			continue
		}
		an := r.tmp("a")
		pre = append(pre, &ast.AssignStmt{Lhs: []ast.Expr{ast.NewIdent(an)}, Tok: token.DEFINE, Rhs: []ast.Expr{a}})
		args = append(args, ast.NewIdent(an))
	}
	inner := &ast.CallExpr{Fun: fexpr, Args: args, Ellipsis: c.Ellipsis}
	if c.Ellipsis != token.NoPos {
		inner.Ellipsis = 1
	}
	body := &ast.BlockStmt{List: []ast.Stmt{&ast.ExprStmt{X: inner}}}
	lit := &ast.FuncLit{Type: &ast.FuncType{Params: &ast.FieldList{}}, Body: body}
	pre = append(pre, &ast.ExprStmt{X: call(sel("vrt", "Go"), lit)})
	return &ast.BlockStmt{List: pre}
}

func (r *rewriter) selectStmt(s *ast.SelectStmt, label *ast.Ident) ast.Stmt {
	r.usedVrt = true
	var pre []ast.Stmt
	var cases []ast.Expr
	var clauses []ast.Stmt
	hasDefault := false
	idx := 0
	for _, cl := range s.Body.List {
		cc := cl.(*ast.CommClause)
		body := r.stmts(cc.Body)
		if cc.Comm == nil {
			hasDefault = true
			clauses = append(clauses, &ast.CaseClause{List: []ast.Expr{&ast.BasicLit{Kind: token.INT, Value: "-1"}}, Body: body})
			continue
		}
		cn := r.tmp("c")
		var mk ast.Expr
		var bind []ast.Stmt
		switch c := cc.Comm.(type) {
		case *ast.SendStmt:
			mk = call(sel("vrt", "SendCase"), r.expr(c.Chan), r.expr(c.Value))
		case *ast.ExprStmt:
			u := unparen(c.X).(*ast.UnaryExpr)
			mk = call(sel("vrt", "RecvCase"), r.expr(u.X))
		case *ast.AssignStmt:
			u := unparen(c.Rhs[0]).(*ast.UnaryExpr)
			mk = call(sel("vrt", "RecvCase"), r.expr(u.X))
			rhs := []ast.Expr{sel(cn, "V")}
			if len(c.Lhs) == 2 {
				rhs = append(rhs, sel(cn, "Ok"))
			}
			bind = append(bind, &ast.AssignStmt{Lhs: c.Lhs, Tok: c.Tok, Rhs: rhs})
			if c.Tok == token.DEFINE {
				// keep "declared and not used" away when the body ignores the binding
				for _, l := range c.Lhs {
					if id, ok := l.(*ast.Ident); ok && id.Name != "_" {
						bind = append(bind, &ast.AssignStmt{Lhs: []ast.Expr{ast.NewIdent("_")}, Tok: token.ASSIGN, Rhs: []ast.Expr{ast.NewIdent(id.Name)}})
					}
				}
			}
		}
		pre = append(pre, &ast.AssignStmt{Lhs: []ast.Expr{ast.NewIdent(cn)}, Tok: token.DEFINE, Rhs: []ast.Expr{mk}})
		cases = append(cases, ast.NewIdent(cn))
		clauses = append(clauses, &ast.CaseClause{List: []ast.Expr{&ast.BasicLit{Kind: token.INT, Value: strconv.Itoa(idx)}}, Body: append(bind, body...)})
		idx++
	}
	// a default clause that cannot be reached keeps the statement terminating whenever the select was
	// (a function ending in a select whose cases all return must still compile)
	clauses = append(clauses, &ast.CaseClause{Body: []ast.Stmt{&ast.ExprStmt{X: call(ast.NewIdent("panic"), &ast.BasicLit{Kind: token.STRING, Value: `"vrt: impossible select index"`})}}})
	args := append([]ast.Expr{ast.NewIdent(strconv.FormatBool(hasDefault))}, cases...)
	var sw ast.Stmt = &ast.SwitchStmt{Tag: call(sel("vrt", "Select"), args...), Body: &ast.BlockStmt{List: clauses}}
	if label != nil {
		sw = &ast.LabeledStmt{Label: label, Stmt: sw}
	}
	return &ast.BlockStmt{List: append(pre, sw)}
}

func unparen(e ast.Expr) ast.Expr {
	for {
		p, ok := e.(*ast.ParenExpr)
		if !ok {
			return e
		}
		e = p.X
	}
}

// buildOK evaluates a //go:build line for linux/amd64 without extra tags.
func buildOK(src []byte) bool {
	for _, ln := range strings.Split(string(src), "\n") {
		t := strings.TrimSpace(ln)
		if strings.HasPrefix(t, "package ") {
			break
		}
		if constraint.IsGoBuild(t) {
			x, err := constraint.Parse(t)
			if err != nil {
				return true
			}
			return x.Eval(func(tag string) bool {
				switch tag {
				case "linux", "amd64", "unix", "gc", "cgo":
					return true
				}
				return strings.HasPrefix(tag, "go1.")
			})
		}
	}
	return true
}

func processFile(path, rel string, ti *typeInfo) (resetFn string, pkgName string, err error) {
	src, err := os.ReadFile(path)
	if err != nil {
		return "", "", err
	}
	fset := token.NewFileSet()
	f, err := parser.ParseFile(fset, path, src, parser.ParseComments)
	if err != nil {
		return "", "", err
	}
	active := buildOK(src)
	r := &rewriter{fset: fset, rel: rel, ti: ti}
	for _, d := range f.Decls {
		switch x := d.(type) {
		case *ast.FuncDecl:
			r.block(x.Body)
		case *ast.GenDecl:
			if x.Tok == token.VAR {
				for _, sp := range x.Specs {
					vs := sp.(*ast.ValueSpec)
					for i := range vs.Values {
						vs.Values[i] = r.expr(vs.Values[i])
					}
				}
			}
		}
	}
	for _, im := range f.Imports {
		p, _ := strconv.Unquote(im.Path.Value)
		if np, ok := importMap[p]; ok {
			im.Path.Value = strconv.Quote(np)
		}
	}

	// reset function for the package-level variables declared in this file
	var resets []ast.Stmt
	if active {
		for _, d := range f.Decls {
			gd, ok := d.(*ast.GenDecl)
			if !ok || gd.Tok != token.VAR {
				continue
			}
			for _, sp := range gd.Specs {
				vs := sp.(*ast.ValueSpec)
				if len(vs.Values) == 0 {
					if vs.Type == nil {
						continue
					}
					for _, n := range vs.Names {
						if n.Name == "_" {
							continue
						}
						resets = append(resets, &ast.AssignStmt{Lhs: []ast.Expr{ast.NewIdent(n.Name)}, Tok: token.ASSIGN,
							Rhs: []ast.Expr{&ast.StarExpr{X: call(ast.NewIdent("new"), vs.Type)}}})
					}
					continue
				}
				if len(vs.Values) != len(vs.Names) {
					continue
				}
				for i, n := range vs.Names {
					if n.Name == "_" || !resettable(vs.Values[i]) {
						continue
					}
					resets = append(resets, &ast.AssignStmt{Lhs: []ast.Expr{ast.NewIdent(n.Name)}, Tok: token.ASSIGN, Rhs: []ast.Expr{vs.Values[i]}})
				}
			}
		}
	}
	if len(resets) > 0 {
		base := strings.TrimSuffix(filepath.Base(rel), ".go")
		resetFn = "verifReset_" + strings.Map(func(c rune) rune {
			if c >= 'a' && c <= 'z' || c >= 'A' && c <= 'Z' || c >= '0' && c <= '9' {
				return c
			}
			return '_'
		}, base)
		f.Decls = append(f.Decls, &ast.FuncDecl{Name: ast.NewIdent(resetFn), Type: &ast.FuncType{Params: &ast.FieldList{}}, Body: &ast.BlockStmt{List: resets}})
	}

	if r.usedVrt {
		spec := &ast.ImportSpec{Name: ast.NewIdent("vrt"), Path: &ast.BasicLit{Kind: token.STRING, Value: strconv.Quote(rtPath)}}
		gd := &ast.GenDecl{Tok: token.IMPORT, Specs: []ast.Spec{spec}}
		f.Decls = append([]ast.Decl{gd}, f.Decls...)
	}
	var buf bytes.Buffer
	f.Comments = nil
	if f.Doc != nil {
		f.Doc = nil
	}
	if err := format.Node(&buf, fset, f); err != nil {
		return "", "", err
	}
	hdr := ""
	for _, ln := range strings.Split(string(src), "\n") {
		t := strings.TrimSpace(ln)
		if constraint.IsGoBuild(t) {
			hdr = t + "\n\n"
		}
		if strings.HasPrefix(t, "package ") {
			break
		}
	}
	if !active {
		resetFn = ""
	}
	return resetFn, f.Name.Name, os.WriteFile(path, append([]byte(hdr), buf.Bytes()...), 0o644)
}

// resettable: initial values that can be re-assigned safely — anything but a top-level call (error
// sentinels, constructors with identity) or a function literal.
func resettable(e ast.Expr) bool {
	switch x := unparen(e).(type) {
	case *ast.CallExpr, *ast.FuncLit:
		return false
	case *ast.UnaryExpr:
		if x.Op == token.AND {
			return false // pointer identity
		}
	}
	ok := true
	ast.Inspect(e, func(n ast.Node) bool {
		if _, is := n.(*ast.FuncLit); is {
			ok = false
		}
		return ok
	})
	return ok
}
