module verifgen

go 1.23
