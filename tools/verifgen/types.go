package main

import (
	"bytes"
	"encoding/json"
	"fmt"
	"go/ast"
	"go/importer"
	"go/parser"
	"go/token"
	"go/types"
	"io"
	"os"
	"os/exec"
	"path/filepath"
	"strings"
)

type rangeKindT int

const (
	rangeOther rangeKindT = iota
	rangeMap
	rangeChan
)

// typeInfo answers type-directed questions about the unrewritten tree.
type typeInfo struct {
	ranges map[string]rangeKindT // "rel:line:col" -> kind
}

func (ti *typeInfo) rangeKind(rel string, pos token.Position) rangeKindT {
	if ti == nil {
		return rangeOther
	}
	return ti.ranges[key(rel, pos)]
}

func key(rel string, pos token.Position) string {
	return fmt.Sprintf("%s:%d:%d", rel, pos.Line, pos.Column)
}

type listPkg struct {
	ImportPath string
	Dir        string
	Export     string
	GoFiles    []string
	Standard   bool
	Error      *struct{ Err string }
}

// loadTypes type-checks the (still unrewritten) packages that are going to be rewritten, importing
// their dependencies from the export data the go command produces, and records which range
// statements iterate over maps with ordered keys and over channels.
func loadTypes(out string, files []string) *typeInfo {
	ti := &typeInfo{ranges: map[string]rangeKindT{}}
	cmd := exec.Command("go", "list", "-export", "-deps", "-json=ImportPath,Dir,Export,GoFiles,Standard,Error",
		"./internal/...", "./pkg/...", "./config/...", ".", "github.com/glebziz/containers/...")
	cmd.Dir = out
	cmd.Env = append(os.Environ(), "GOFLAGS=-mod=mod -trimpath")
	var stderr bytes.Buffer
	cmd.Stderr = &stderr
	outb, err := cmd.Output()
	if err != nil {
		// packages that need build tags (mocks of test helpers) fail to list; tolerate partial output
		if len(outb) == 0 {
			die("go list -export: %v\n%s", err, stderr.String())
		}
	}
	exports := map[string]string{}
	var pkgs []*listPkg
	dec := json.NewDecoder(bytes.NewReader(outb))
	for {
		var p listPkg
		if err := dec.Decode(&p); err == io.EOF {
			break
		} else if err != nil {
			die("go list json: %v", err)
		}
		if p.Export != "" {
			exports[p.ImportPath] = p.Export
		}
		pp := p
		pkgs = append(pkgs, &pp)
	}
	want := map[string]bool{}
	for _, f := range files {
		want[filepath.Dir(filepath.Join(out, f))] = true
	}
	fset := token.NewFileSet()
	imp := importer.ForCompiler(fset, "gc", func(path string) (io.ReadCloser, error) {
		e, ok := exports[path]
		if !ok {
			return nil, fmt.Errorf("no export data for %s", path)
		}
		return os.Open(e)
	})
	absOut, _ := filepath.Abs(out)
	for _, p := range pkgs {
		if p.Standard || !want[p.Dir] || len(p.GoFiles) == 0 {
			continue
		}
		var asts []*ast.File
		var rels []string
		for _, gf := range p.GoFiles {
			full := filepath.Join(p.Dir, gf)
			f, err := parser.ParseFile(fset, full, nil, parser.SkipObjectResolution)
			if err != nil {
				die("parse %s: %v", full, err)
			}
			asts = append(asts, f)
			rel, _ := filepath.Rel(absOut, full)
			rels = append(rels, rel)
		}
		info := &types.Info{Types: map[ast.Expr]types.TypeAndValue{}}
		conf := types.Config{Importer: imp, Error: func(error) {}}
		if _, err := conf.Check(p.ImportPath, fset, asts, info); err != nil {
			fmt.Fprintf(os.Stderr, "verifgen: note: type-checking %s: %v (map ranges of this package stay unordered)\n", p.ImportPath, err)
		}
		for i, f := range asts {
			rel := rels[i]
			ast.Inspect(f, func(n ast.Node) bool {
				rs, ok := n.(*ast.RangeStmt)
				if !ok {
					return true
				}
				tv, ok := info.Types[rs.X]
				if !ok || tv.Type == nil {
					return true
				}
				switch u := tv.Type.Underlying().(type) {
				case *types.Map:
					if b, ok := u.Key().Underlying().(*types.Basic); ok && b.Info()&types.IsOrdered != 0 {
						ti.ranges[key(rel, fset.Position(rs.Pos()))] = rangeMap
					}
				case *types.Chan:
					ti.ranges[key(rel, fset.Position(rs.Pos()))] = rangeChan
				}
				return true
			})
		}
	}
	if os.Getenv("VERIFGEN_VERBOSE") != "" {
		var ks []string
		for k, v := range ti.ranges {
			ks = append(ks, fmt.Sprintf("%s=%d", k, v))
		}
		fmt.Fprintln(os.Stderr, "verifgen: typed ranges:", strings.Join(ks, " "))
	}
	return ti
}
