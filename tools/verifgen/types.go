package main

import (
	"go/token"
)

type rangeKindT int

const (
	rangeOther rangeKindT = iota
	rangeMap
	rangeChan
)

// typeInfo answers type-directed questions about the unrewritten tree.
type typeInfo struct {
	ranges map[string]rangeKindT // "rel:line:col" -> kind
}

func (ti *typeInfo) rangeKind(rel string, pos token.Position) rangeKindT {
	if ti == nil {
		return rangeOther
	}
	return ti.ranges[key(rel, pos)]
}

func key(rel string, pos token.Position) string {
	return rel + ":" + itoa(pos.Line) + ":" + itoa(pos.Column)
}

func itoa(i int) string {
	if i == 0 {
		return "0"
	}
	var b [20]byte
	n := len(b)
	for i > 0 {
		n--
		b[n] = byte('0' + i%10)
		i /= 10
	}
	return string(b[n:])
}

func loadTypes(out string, files []string) *typeInfo {
	return nil
}
